import numpy as np, warnings, sys, traceback, os, tempfile
warnings.simplefilter('ignore')
from astropy.io import fits
from astropy.table import Table
import pydl.pydlutils.mangle as M
def t(label,f):
    try:
        r=f(); print('OK  ',label,r)
    except Exception as e:
        print('FAIL',label,type(e).__name__,str(e)[:160]); traceback.print_exc(limit=-2)
rng=np.random.default_rng(4)
d=tempfile.mkdtemp()
def mkpolys(npoly,maxc):
    polys=[]
    for i in range(npoly):
        nc=int(rng.integers(1,maxc+1)); x=rng.normal(size=(nc,3)); x/=np.linalg.norm(x,axis=1)[:,None]
        cm=rng.uniform(0.3,1.8,nc)*rng.choice([-1,1],nc); uc=int(rng.integers(1,1<<nc))
        polys.append(M.ManglePolygon(x=x,cm=cm,use_caps=uc,id=i,pixel=0,weight=1.0,str=1.0))
    return polys
def write_fits(polys,fn):
    maxc=max(p.ncaps for p in polys); n=len(polys)
    X=np.zeros((n,maxc,3)); CM=np.zeros((n,maxc))
    for i,p in enumerate(polys): X[i,:p.ncaps]=p.x; CM[i,:p.ncaps]=p.cm
    cols=[fits.Column('XCAPS','%dD'%(maxc*3),dim='(3,%d)'%maxc,array=X) if maxc>1 else fits.Column('XCAPS','3D',array=X[:,0,:]),
          fits.Column('CMCAPS','%dD'%maxc,array=CM if maxc>1 else CM[:,0]),
          fits.Column('NCAPS','J',array=[p.ncaps for p in polys]),fits.Column('WEIGHT','D',array=[p.weight for p in polys]),
          fits.Column('PIXEL','J',array=[p.pixel for p in polys]),fits.Column('STR','D',array=[1.0]*n),
          fits.Column('USE_CAPS','J',array=[p.use_caps for p in polys]),fits.Column('IFIELD','J',array=[p.id for p in polys])]
    fits.BinTableHDU.from_columns(cols).writeto(fn,overwrite=True)
def write_ply(polys,fn):
    with open(fn,'w') as f:
        f.write('%d polygons\n'%len(polys))
        for p in polys:
            f.write('polygon %d ( %d caps, %r weight, %d pixel, %r str):\n'%(p.id,p.ncaps,p.weight,p.pixel,1.0))
            for k in range(p.ncaps): f.write(' %r %r %r %r\n'%(float(p.x[k,0]),float(p.x[k,1]),float(p.x[k,2]),float(p.cm[k])))
def go(maxc):
    polys=mkpolys(6,maxc); fnf=os.path.join(d,'p%d.fits'%maxc); fnp=os.path.join(d,'p%d.ply'%maxc)
    write_fits(polys,fnf); write_ply(polys,fnp)
    pts=rng.normal(size=(500,3)); pts/=np.linalg.norm(pts,axis=1)[:,None]
    ref=M.is_in_window(M.PolygonList(polys),pts)
    raw=M.is_in_window(M.read_fits_polygons(fnf),pts)
    conv=M.is_in_window(M.read_fits_polygons(fnf,convert=True),pts)
    ply=M.is_in_window(M.read_mangle_polygons(fnp),pts)
    return (ref[1]==raw[1]).all(), (ref[1]==conv[1]).all(), (ref[1]==ply[1]).all(), ref[0].sum(), [p.use_caps for p in M.read_mangle_polygons(fnp)], [p.use_caps for p in polys]
t('formats maxc=4', lambda: go(4))
t('formats maxc=1', lambda: go(1))
