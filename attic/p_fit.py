import numpy as np, warnings, sys, traceback
warnings.simplefilter('ignore')
from pydl.pydlutils.bspline import bspline, iterfit, cholesky_band, cholesky_solve
from scipy.interpolate import BSpline
rng=np.random.default_rng(int(sys.argv[1]) if len(sys.argv)>1 else 0)
fails={}
def F(k,v): fails.setdefault(k,[]).append(v)
def design(t,nord,x):
    nc=len(t)-nord
    A=np.zeros((len(x),nc))
    for j in range(nc):
        c=np.zeros(nc); c[j]=1
        A[:,j]=np.nan_to_num(BSpline(t,c,nord-1,extrapolate=False)(x))
    # right end closed
    return A
for it in range(300):
    n=int(rng.integers(30,120)); nord=int(rng.integers(1,6))
    x=np.sort(rng.uniform(0,10,n))
    nb=int(rng.integers(2,8))
    b=bspline(x,nord=nord,nbkpts=nb)
    y=np.sin(x)+rng.normal(0,0.1,n); iv=rng.uniform(0.5,2,n); iv[rng.random(n)<0.1]=0
    try:
        st,yfit=b.fit(x,y,iv)
    except Exception as e:
        F(('fit-exc',nord,type(e).__name__,str(e)[:60]),it); continue
    if st!=0: F(('status',st,nord,nb),it); continue
    t=b.breakpoints.astype('d')
    A=design(t,nord,x); 
    # fix right end: x==max → use pydl basis instead? use lstsq on rows
    w=np.sqrt(iv)
    ref,*_=np.linalg.lstsq(A*w[:,None],y*w,rcond=None)
    yref=A@ref
    if not np.allclose(yfit[:-1],yref[:-1],rtol=1e-5,atol=1e-6): F(('fit-mismatch',nord,nb),(it,np.abs(yfit-yref).max()))
# ill-posed: gap
for it in range(200):
    n=int(rng.integers(30,120)); nord=int(rng.integers(2,6))
    x=np.sort(np.concatenate([rng.uniform(0,3,n//2),rng.uniform(7,10,n-n//2)]))
    b=bspline(x,nord=nord,bkspace=float(rng.uniform(0.3,1.0)))
    y=np.sin(x); iv=np.ones(n)
    try:
        st,yfit=b.fit(x,y,iv)
        F(('gap-status',st, bool(np.isfinite(b.coeff).all())),it)
    except Exception as e:
        F(('gap-exc',type(e).__name__,str(e)[:70]),it)
for k,v in fails.items(): print(k,len(v),v[:2])
# iterfit on gap
try:
    x=np.sort(np.concatenate([rng.uniform(0,3,50),rng.uniform(7,10,50)])); y=np.sin(x)
    s,m=iterfit(x,y,invvar=np.ones(100),bkspace=0.5,nord=4); print('iterfit gap ok', s.mask.sum(), len(s.mask))
except Exception as e: traceback.print_exc(limit=3)
print('done')
