import numpy as np, warnings, sys, traceback
warnings.simplefilter('ignore')
def t(label,f):
    try:
        r=f(); print('OK  ',label,r)
    except Exception as e:
        print('FAIL',label,type(e).__name__,str(e)[:160])
rng=np.random.default_rng(2)
from pydl.pydlutils.math import djs_reject, djs_median, computechi2
from pydl.pydlutils.image import djs_maskinterp
from pydl.pydlspec2d.spec1d import skymask, spec_append, HMF, pca_solve
import pydl.pydlutils.sdss as S
S.maskbits={"SPPIXMASK":{"NOPLUG":0,"NODATA":24,"COMBINEREJ":25,"BADSKYCHI":27,"REDMONSTER":28}}
from pydl import smooth, median, uniq, rebin, pcomp
d=rng.normal(size=30); m=np.zeros(30); d[5]=10; d[20]=-10
t('reject basic', lambda: np.nonzero(~djs_reject(d,m,sigma=np.ones(30),upper=5,lower=5)[0])[0])
t('reject grow=1', lambda: np.nonzero(~djs_reject(d,m,sigma=np.ones(30),upper=5,lower=5,grow=1)[0])[0])
t('reject grow=2', lambda: np.nonzero(~djs_reject(d,m,sigma=np.ones(30),upper=5,lower=5,grow=2)[0])[0])
t('reject maxdev', lambda: np.nonzero(~djs_reject(d,m,maxdev=5.0)[0])[0])
t('reject invvar', lambda: np.nonzero(~djs_reject(d,m,invvar=np.ones(30),upper=5,lower=5)[0])[0])
t('reject nosigma', lambda: np.nonzero(~djs_reject(d,m,upper=3,lower=3)[0])[0])
t('reject maxrej', lambda: np.nonzero(~djs_reject(d,m,sigma=np.ones(30),upper=5,lower=5,maxrej=1)[0])[0])
om=np.zeros((3,40),dtype='i4'); om[0,10]=1<<27; om[1,0]=1<<28; om[2,39]=1<<27
for dt in ('i2','i4','i8','u8'):
    t('skymask '+dt, lambda: [np.nonzero(r==0)[0].tolist() for r in skymask(np.ones((3,40)), None, om.astype(dt) if dt!='i2' else (om>>20).astype(dt), ngrow=2)])
t('skymask none', lambda: skymask(np.ones((3,40)), None, None).sum())
y=rng.normal(size=(4,10)); mk=rng.random((4,10))<0.3
t('maskinterp 2d ax0', lambda: djs_maskinterp(y,mk,axis=0).shape)
t('maskinterp 2d ax1', lambda: djs_maskinterp(y,mk,axis=1).shape)
t('djs_median reflect', lambda: (lambda a: np.abs(djs_median(a,width=5,boundary='reflect') - __import__('scipy.ndimage').ndimage.median_filter(a,size=5,mode='reflect')).max())(rng.normal(size=30)))
t('djs_median reflect 2d', lambda: (lambda a: np.abs(djs_median(a,width=3,boundary='reflect') - __import__('scipy.ndimage').ndimage.median_filter(a,size=3,mode='reflect')).max())(rng.normal(size=(8,9))))
a=rng.normal(size=20)
t('smooth 5', lambda: np.abs(smooth(a,5)[2:-2]-np.convolve(a,np.ones(5)/5,'valid')).max())
t('smooth 4 (->5)', lambda: np.abs(smooth(a,4)[2:-2]-np.convolve(a,np.ones(5)/5,'valid')).max())
t('smooth edge', lambda: np.abs(smooth(a,5,True)-np.convolve(np.pad(a,2,mode='edge'),np.ones(5)/5,'valid')).max())
t('smooth width>n', lambda: smooth(a[:3],7,True))
t('median even', lambda: (median(np.array([1.,2,3,4])), median(np.array([1.,2,3,4]),even=True)))
t('median w3', lambda: median(a,3)[:4]-a[:4])
t('median w > n', lambda: median(a[:4],7))
t('uniq const', lambda: uniq(np.array([3,3,3])))
t('uniq', lambda: uniq(np.array([1,1,2,3,3])))
t('uniq idx', lambda: (lambda x: uniq(x, x.argsort()))(np.array([3,1,2,1,3])))
t('rebin mixed', lambda: rebin(np.arange(24,dtype='f4').reshape(4,6),(8,3)).shape)
t('rebin int', lambda: rebin(np.arange(24).reshape(4,6),(2,3)))
t('rebin bad', lambda: rebin(np.arange(24).reshape(4,6),(3,3)))
t('rebin rank', lambda: rebin(np.arange(24).reshape(4,6),(24,)))
A=rng.normal(size=(20,3)); b=rng.normal(size=20); w=rng.uniform(0.5,2,20); w[3]=0
c=computechi2(b,w,A)
ref=np.linalg.lstsq(A*w[:,None],b*w,rcond=None)[0]
t('computechi2', lambda: (np.abs(c.acoeff-ref).max(), c.dof, np.abs(c.covar-np.linalg.inv((A*w[:,None]).T@(A*w[:,None]))).max(), np.abs(c.var-np.diag(c.covar)).max()))
X=rng.normal(size=(50,4))@rng.normal(size=(4,4))
p=pcomp(X); pc=pcomp(X,covariance=True)
t('pcomp', lambda: (np.all(np.diff(p.eigenvalues)<=0), np.abs(p.coefficients@p.coefficients.T-np.corrcoef(X,rowvar=0)).max(), p.variance.sum(), np.abs(p.derived-X@p.coefficients).max(), np.abs(pc.coefficients@pc.coefficients.T-np.cov(X,rowvar=0)).max()))
t('spec_append', lambda: spec_append(np.ones((2,3)),2*np.ones((1,5)),pixshift=-1))
