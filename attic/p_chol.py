import numpy as np, warnings
warnings.simplefilter('ignore')
from pydl.pydlutils.bspline import cholesky_band, cholesky_solve
def t(label,f):
    try:
        r=f(); print('OK  ',label,r)
    except Exception as e:
        print('FAIL',label,type(e).__name__,str(e)[:160])
l=np.zeros((2,5)); l[0,:3]=[1,1,1]; l[1,:2]=[2,2]
t('indef posdiag', lambda: cholesky_band(l))
l2=np.zeros((2,5)); l2[0,:3]=[4,4,4]; l2[1,:2]=[1,np.nan]
t('nan offdiag', lambda: cholesky_band(l2))
l3=np.zeros((2,5)); l3[0,:3]=[4,-1,4]; l3[1,:2]=[1,1]
t('neg diag', lambda: cholesky_band(l3))
l4=np.zeros((1,4)); l4[0,:3]=[4,9,16]
t('bw1', lambda: (cholesky_band(l4), cholesky_solve(cholesky_band(l4)[1], np.array([4.,9,16,0]))))
