import io, warnings
warnings.simplefilter('ignore')
from pydl.pydlutils.yanny import yanny
text = '''typedef struct {
  float	  N_<3>;
  long neQ28kC; # 
} QMU8Qrq;
typedef struct {
  char	  sxv3<>; # b .aba
  char m2u[9]; # c,
  int 		tsQrJEG; # 
  short	  q9[3];
  float  Ww<2>;
} LN;
ln " 	ZY10 c"	b	-33251			{	-5585 	91 	6802			}	  {+3		0		 }
'''
f=io.StringIO(text); f.mode='r'
try:
    y=yanny(f)
    print(y['LN'])
except Exception as e:
    import traceback; traceback.print_exc()
f=io.StringIO(text); f.mode='r'
y=yanny.__new__(yanny); 
