import numpy as np, os, tempfile, warnings, traceback, shutil, sys
warnings.simplefilter('ignore')
from astropy.io import fits
from astropy import log; log.setLevel('ERROR')
from pydl.pydlspec2d.spec1d import readspec
rng=np.random.default_rng(int(sys.argv[1]))
run2d='v5_7_0'; run1d='v5_7_1'
def val(plate,mjd,hdu,f,p): return plate*1000.0+ (mjd%1000)*1.0 + hdu*0.1 + f*0.001 + p*1e-6
def mk(top,plate,mjd,nf,npix,c0,c1):
    d=os.path.join(top,run2d,'%04d'%plate); os.makedirs(os.path.join(d,run1d),exist_ok=True)
    F=np.arange(1,nf+1)[:,None]; P=np.arange(npix)[None,:]
    img=lambda h:(val(plate,mjd,h,F,P)).astype('f8')
    h=fits.Header(); h['COEFF0']=c0; h['COEFF1']=c1
    hd=[fits.PrimaryHDU(img(0),header=h),fits.ImageHDU(img(1)),fits.ImageHDU((F*100+P+plate).astype('i4')),fits.ImageHDU((F*100+P+mjd).astype('i4')),fits.ImageHDU(img(4))]
    pm=np.zeros(nf,dtype=[('FIBERID','i4'),('PLATE','i4'),('MJD','i4')]); pm['FIBERID']=np.arange(nf)+1; pm['PLATE']=plate; pm['MJD']=mjd
    hd+= [fits.BinTableHDU(pm),fits.ImageHDU(img(6))]
    fits.HDUList(hd).writeto(os.path.join(d,'spPlate-%04d-%05d.fits'%(plate,mjd)))
    z=np.zeros(nf,dtype=[('FIBERID','i4'),('Z','f8'),('PLATE','i4'),('MJD','i4')]); z['FIBERID']=np.arange(nf)+1; z['Z']=plate+mjd*1e-6+np.arange(nf)*1e-9; z['PLATE']=plate; z['MJD']=mjd
    fits.HDUList([fits.PrimaryHDU(),fits.BinTableHDU(z)]).writeto(os.path.join(d,run1d,'spZbest-%04d-%05d.fits'%(plate,mjd)))
bad={}
for it in range(40):
    top=tempfile.mkdtemp()
    try:
        os.environ.update({'BOSS_SPECTRO_REDUX':top,'RUN2D':run2d,'RUN1D':run1d,'SPECTRO_MATCH':os.path.join(top,'m'),'PHOTO_RESOLVE':'/x/r'})
        obs={}
        for plate in rng.choice(np.arange(266,9000),int(rng.integers(1,4)),replace=False):
            for mjd in rng.choice(np.arange(55100,56000),int(rng.integers(1,3)),replace=False):
                nf=int(rng.integers(3,9)); npix=int(rng.integers(10,25)); c0=3.5+rng.uniform(0,0.1); c1=1e-4
                # nf constant per plate? not required
                mk(top,int(plate),int(mjd),nf,npix,c0,c1); obs[(int(plate),int(mjd))]=(nf,npix,c0,c1)
        keys=list(obs); nreq=int(rng.integers(1,12))
        req=[keys[i] for i in rng.integers(0,len(keys),nreq)]
        fib=[int(rng.integers(1,obs[k][0]+1)) for k in req]
        r=readspec(np.array([k[0] for k in req]),mjd=np.array([k[1] for k in req]),fiber=np.array(fib))
        npmax=max(obs[k][1] for k in set(req))
        assert r['flux'].shape==(nreq,npmax),('shape',r['flux'].shape,(nreq,npmax))
        for i,(k,f) in enumerate(zip(req,fib)):
            nf,npix,c0,c1=obs[k]
            for name,h in (('flux',0),('invvar',1),('disp',4),('sky',6)):
                exp=np.zeros(npmax); exp[:npix]=val(k[0],k[1],h,f,np.arange(npix))
                assert np.array_equal(r[name][i],exp),(name,i)
            exp=np.zeros(npmax,'i4'); exp[:npix]=f*100+np.arange(npix)+k[0]; assert np.array_equal(r['andmask'][i],exp),'andmask'
            exp=np.zeros(npmax,'i4'); exp[:npix]=f*100+np.arange(npix)+k[1]; assert np.array_equal(r['ormask'][i],exp),'ormask'
            assert (r['plugmap']['FIBERID'][i],r['plugmap']['PLATE'][i],r['plugmap']['MJD'][i])==(f,k[0],k[1]),'plugmap'
            assert r['zans']['Z'][i]==k[0]+k[1]*1e-6+(f-1)*1e-9,'zans'
            exp=np.zeros(npmax); exp[:npix]=c0+c1*np.arange(npix); assert np.allclose(r['loglam'][i],exp,atol=1e-12),('loglam',i)
    except AssertionError as e:
        bad.setdefault(('mismatch',str(e.args[0])[:40]),[]).append((it,req,fib))
    except Exception as e:
        tb=traceback.extract_tb(e.__traceback__)[-1]; bad.setdefault(('exc',type(e).__name__,tb.name,tb.lineno,str(e)[:60]),[]).append(it)
    finally: shutil.rmtree(top)
for k,v in bad.items(): print(k,len(v),v[:2])
print('done')
