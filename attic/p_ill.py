import numpy as np, warnings, sys, traceback
warnings.simplefilter('ignore')
from pydl.pydlutils.bspline import bspline, iterfit
rng=np.random.default_rng(int(sys.argv[1]) if len(sys.argv)>1 else 0)
res={}
for it in range(400):
    n=int(rng.integers(20,120)); nord=int(rng.integers(1,6))
    kind=rng.integers(0,4)
    if kind==0: x=np.sort(np.concatenate([rng.uniform(0,3,n//2),rng.uniform(7,10,n-n//2)]))
    elif kind==1: x=np.sort(rng.uniform(0,10,n))
    elif kind==2: x=np.sort(np.concatenate([rng.uniform(0,1,n//3),rng.uniform(4,5,n//3),rng.uniform(9,10,n-2*(n//3))]))
    else: x=np.sort(rng.uniform(0,10,max(3,nord+rng.integers(-1,3))))
    n=len(x)
    y=np.sin(x)+rng.normal(0,0.01,n); iv=np.ones(n)
    if kind==1: iv[(x>3)&(x<6)]=0
    bks=float(rng.uniform(0.2,1.5))
    try:
        if rng.random()<0.5:
            b=bspline(x,nord=nord,bkspace=bks); st,yf=b.fit(x,y,iv); who='fit'
            nit=0
            while st==-1 and nit<20: st,yf=b.fit(x,y,iv); nit+=1
        else:
            b,m=iterfit(x,y,invvar=iv,nord=nord,bkspace=bks,maxiter=int(rng.integers(0,4))); st='it'; who='iterfit'
        fin=bool(np.isfinite(np.asarray(b.coeff,dtype=float)).all())
        key=(who,int(kind),str(st),fin)
    except Exception as e:
        tb=traceback.extract_tb(e.__traceback__)[-1]
        key=('EXC',who if 'who' in dir() else '?',int(kind),type(e).__name__,tb.name,tb.lineno,str(e)[:50])
    res[key]=res.get(key,0)+1
for k in sorted(res,key=str): print(k,res[k])
