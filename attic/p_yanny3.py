import numpy as np, os, tempfile, warnings, io, traceback
from pydl.pydlutils.yanny import yanny, write_ndarray_to_yanny
def trial(label, text, raw=False, binary=False):
    try:
        if binary:
            f = io.BytesIO(text.encode('ascii')); f.mode='rb'
        else:
            f = io.StringIO(text); f.mode='r'
        y = yanny(f, raw=raw)
        out = {t: (y[t] if raw else (y[t].tolist(), str(y[t].dtype))) for t in y.tables()}
        print('OK  ', label, out, [(k,y[k]) for k in y.pairs()])
    except Exception as e:
        traceback.print_exc(limit=2)
        print('FAIL', label, type(e).__name__, e)
base = """typedef struct {
  int a;
  char s[];
  float f[2];
  char sa[2][4];
} foo;
"""
trial('plain', base + 'foo 1 abc {1.0 2.0} {x y}\nfoo 2 "d e" {3 4} {"p q" r}\n')
trial('crlf', (base + 'foo 1 abc {1.0 2.0} {x y}\nfoo 2 "d e" {3 4} {"p q" r}\nkey val ue\n').replace('\n','\r\n'))
trial('tabs', base + 'foo\t1\tabc\t{1.0\t2.0}\t{x\ty}\n  FOO   2   "d e"   { 3   4 }   { "p q"   r }  \n')
trial('brace-wrapped scalar string', base + 'foo 1 {abc} {1.0 2.0} {x y}\nfoo 1 {a b} {1.0 2.0} {{x} {y z}}\n')
trial('comments', '# c\n' + base + '# comment\nfoo 1 abc {1.0 2.0} {x y} # trailing\n\n   \nfoo 2 "d#e" {3 4} {"p#q" r} # tr "x" \n')
trial('continuation', base + 'foo 1 abc \\\n {1.0 2.0} \\  \n {x y}\n')
trial('interleaved', base + 'typedef struct { double d; } bar;\nfoo 1 abc {1.0 2.0} {x y}\nbar 2.5\nfoo 2 q {3 4} {u v}\nBAR 3.5\n')
trial('legacy <n>', 'typedef struct {\n int a<2>;\n char s<5>;\n} OLD;\nold {1 2} hello\n')
trial('binary', base + 'foo 1 abc {1.0 2.0} {x y}\n', binary=True)
trial('raw', base + 'foo 1 abc {1.0 2.0} {x y}\nfoo 2 "d e" {3 4} {"p q" r}\n', raw=True)
trial('empty strings', base + 'foo 1 "" {1.0 2.0} {"" y}\nfoo 1 {{}} {1.0 2.0} {x ""}\n')
trial('one-line typedef', 'typedef struct { int a; char s[3]; } T;\nT 1 ab\nt 2 cd\n')
trial('enum', 'typedef enum { A, B, CCC } E;\ntypedef struct { E e; int q; } T;\nT A 1\nT CCC 2\n')
trial('col named like type', 'typedef struct { int int; float a; float aa; } T;\nT 1 2.5 3.5\n')
trial('no rows char[]', 'typedef struct { int a; char s[]; } T;\n')
trial('typedef w/ comments', 'typedef struct {\n int a; # the a\n char s[3]; # the s; really\n} T;\nT 1 ab\n')
