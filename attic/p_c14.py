import numpy as np, warnings, sys, itertools
warnings.simplefilter('ignore')
from pydl import rebin, median, smooth, uniq
rng=np.random.default_rng(1)
def ref_rebin(x,d,sample=False):
    xx=x.copy()
    for k in range(x.ndim):
        d0=xx.shape[k]; xx=np.moveaxis(xx,k,0)
        if d[k]>d0:
            out=np.zeros((d[k],)+xx.shape[1:],dtype=xx.dtype); f=d0/d[k]
            for i in range(d[k]):
                p=f*i; fp=int(np.floor(p))
                if sample or p>=d0-1: out[i]=xx[fp]
                else: out[i]=xx[fp]+(p-fp)*(xx[fp+1]-xx[fp])
        elif d[k]==d0: out=xx.copy()
        else:
            f=d0//d[k]; out=np.zeros((d[k],)+xx.shape[1:],dtype=xx.dtype)
            for i in range(d[k]):
                if sample: out[i]=xx[f*i]
                else:
                    sm=xx[f*i:f*(i+1)].sum(0)
                    out[i]= sm//f if xx.dtype.kind in 'iu' else sm/f
        xx=np.moveaxis(out,0,k)
    return xx
bad={}
for it in range(1500):
    nd=int(rng.integers(1,4)); shape=tuple(int(rng.choice([1,2,3,4,6])) for _ in range(nd))
    dt=rng.choice(['f4','f8','i4','i2'])
    x=(rng.normal(size=shape)*10).astype(dt)
    d=[]
    for s in shape:
        c=rng.integers(0,3)
        if c==0: d.append(s*int(rng.choice([2,3,4])))
        elif c==1: d.append(s)
        else:
            divs=[q for q in (2,3,4,6) if s%q==0 and s//q>=1]
            d.append(s//int(rng.choice(divs)) if divs else s)
    sample=bool(rng.random()<0.3)
    try:
        r=rebin(x,tuple(d),sample=sample)
    except Exception as e:
        bad.setdefault(('exc',type(e).__name__,str(e)[:50]),[]).append((shape,d,dt)); continue
    ref=ref_rebin(x,d,sample)
    if r.shape!=tuple(d) or r.dtype!=x.dtype: bad.setdefault('shape/dtype',[]).append((shape,d,dt,r.shape,r.dtype))
    elif not np.allclose(r,ref,rtol=1e-5 if dt=='f4' else 1e-12,atol=1e-5 if dt=='f4' else 1e-12): bad.setdefault(('value',dt,sample),[]).append((shape,d))
# median 2d
for it in range(300):
    a=rng.normal(size=(int(rng.integers(3,10)),int(rng.integers(3,10)))); w=int(rng.choice([3,5]))
    if w>min(a.shape): continue
    m=median(a,w); h=w//2
    ref=a.copy()
    for i in range(h,a.shape[0]-h):
        for j in range(h,a.shape[1]-h): ref[i,j]=np.median(a[i-h:i+h+1,j-h:j+h+1])
    if not np.allclose(m,ref): bad.setdefault('median2d',[]).append((a.shape,w))
for it in range(500):
    n=int(rng.integers(1,30)); a=rng.normal(size=n); w=int(rng.integers(1,n+1))
    s=smooth(a,w); wo=w+1 if w%2==0 else w
    if wo<3: ref=a
    else:
        h=wo//2; ref=a.copy()
        for i in range(h,n-h): ref[i]=a[i-h:i+h+1].mean()
    if not np.allclose(s,ref): bad.setdefault(('smooth',),[]).append((n,w))
    st=smooth(a,w,True)
    if wo>=3:
        pad=np.pad(a,wo//2,mode='edge'); ref2=np.convolve(pad,np.ones(wo)/wo,'valid')
        if not np.allclose(st,ref2): bad.setdefault(('smooth-edge',),[]).append((n,w,wo))
for k,v in bad.items(): print(k,len(v),v[:3])
print('done')
