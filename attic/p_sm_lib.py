import numpy as np
def vec(ra, dec):
    r=np.deg2rad(ra); d=np.deg2rad(dec)
    return np.stack([np.cos(d)*np.cos(r), np.cos(d)*np.sin(r), np.sin(d)],-1)
def sepmat(ra1,dec1,ra2,dec2):
    a=vec(ra1,dec1); b=vec(ra2,dec2)
    cr = np.linalg.norm(np.cross(a[:,None,:], b[None,:,:]),axis=-1); dt = (a[:,None,:]*b[None,:,:]).sum(-1)
    return np.rad2deg(np.arctan2(cr, dt))
