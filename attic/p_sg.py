import numpy as np, sys, warnings
from pydl.pydlutils.spheregroup import spherematch, spheregroup
warnings.simplefilter('ignore')
from p_sm_lib import sepmat
rng = np.random.default_rng(int(sys.argv[1]) if len(sys.argv)>1 else 0)
fails = {}
N=int(sys.argv[2]) if len(sys.argv)>2 else 300
def comps(adj):
    n=len(adj); lab=-np.ones(n,int); c=0
    for i in range(n):
        if lab[i]>=0: continue
        st=[i]; lab[i]=c
        while st:
            u=st.pop()
            for v in np.nonzero(adj[u])[0]:
                if lab[v]<0: lab[v]=c; st.append(v)
        c+=1
    return lab
for it in range(N):
    kind = rng.integers(0,6)
    n = rng.integers(2,40)
    ll = 10**rng.uniform(-3, 1.0)
    if kind==0:
        ll = 10**rng.uniform(-0.3,1.0)
        ra=rng.uniform(0,360,n); dec=np.rad2deg(np.arcsin(rng.uniform(-1,1,n)))
    elif kind==5:  # chain along RA crossing chunks
        d0 = rng.uniform(-70,70); step = ll*rng.uniform(0.7,1.1)/np.cos(np.deg2rad(d0))
        ra = (rng.uniform(0,360)+np.arange(n)*step)%360; dec = d0+rng.normal(0,ll*0.05,n)
        p = rng.permutation(n); ra=ra[p]; dec=dec[p]
    else:
        if kind==1: c=(rng.uniform(0,360), rng.uniform(-80,80))
        elif kind==2: c=(rng.choice([0.0,359.9,0.1]), rng.uniform(-60,60))
        elif kind==3: c=(rng.uniform(0,360), rng.choice([-1,1])*rng.uniform(85,89.9))
        else: c=(rng.uniform(0,360), rng.uniform(-30,30))
        sc = ll*rng.uniform(0.3,5)
        ra=(c[0]+rng.normal(0,sc,n)/max(np.cos(np.deg2rad(c[1])),0.01))%360; dec=np.clip(c[1]+rng.normal(0,sc,n),-89.99,89.99)
    cs = None if rng.random()<0.5 else ll*rng.uniform(4,20)
    try:
        ing, mult, first, nxt = spheregroup(ra,dec,ll,chunksize=cs)
    except Exception as e:
        fails.setdefault(('exc',type(e).__name__,str(e)[:60], int(kind)),[]).append(it); continue
    S = sepmat(ra,dec,ra,dec)
    lo = comps(S <= ll*(1-1e-9)); hi = comps(S <= ll*(1+1e-9))
    # lo refines ing refines hi
    ok1 = all(len(set(ing[lo==g]))==1 for g in set(lo))
    ok2 = all(len(set(hi[ing==g]))==1 for g in set(ing))
    if not ok1: fails.setdefault(('undermerge',int(kind)),[]).append((it,ll,cs))
    if not ok2: fails.setdefault(('overmerge',int(kind)),[]).append((it,ll,cs))
    # numbering
    seen=[]; 
    for g in ing:
        if g not in seen: seen.append(g)
    if seen != list(range(len(seen))): fails.setdefault(('numbering',int(kind)),[]).append(it)
    ng=len(seen)
    for g in range(ng):
        mem = np.nonzero(ing==g)[0]
        if mult[g]!=len(mem) or first[g]!=mem[0]: fails.setdefault(('mult/first',int(kind)),[]).append(it); break
        walk=[]; j=first[g]
        while j!=-1 and len(walk)<=n: walk.append(j); j=nxt[j]
        if sorted(walk)!=list(mem): fails.setdefault(('next',int(kind)),[]).append(it); break
    if (mult[ng:]!=0).any() or (first[ng:]!=-1).any(): fails.setdefault(('tail',int(kind)),[]).append(it)
for k,v in fails.items(): print(k, len(v), v[:3])
print('done')
