import sys
sys.path.insert(0,'/tmp/probe/deps')
import atheris
with atheris.instrument_imports(include=['pydl.pydlutils.yanny']):
    from pydl.pydlutils.yanny import yanny
import io
from hypothesis import given, strategies as st, settings
n=[0]
@settings(database=None, deadline=None)
@given(st.lists(st.text(alphabet='ab {}"#\n\t;\\', max_size=20), max_size=5))
def prop(lines):
    n[0]+=1
    f=io.StringIO('typedef struct { int a; char s[]; } T;\n' + '\n'.join('k%d %s'%(i,l.replace('\n',' ')) for i,l in enumerate(lines))); f.mode='r'
    try: yanny(f)
    except Exception: pass
atheris.Setup(sys.argv, prop.hypothesis.fuzz_one_input)
atheris.Fuzz()
