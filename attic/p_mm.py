import numpy as np, sys, warnings
warnings.simplefilter('ignore')
from pydl.pydlutils.spheregroup import spherematch
rng=np.random.default_rng(int(sys.argv[1]))
bad={}
for it in range(1500):
    n1=int(rng.integers(2,20)); n2=int(rng.integers(1,20)); ml=10**rng.uniform(-3,0)
    c=(rng.uniform(0,360),rng.uniform(-70,70)); sc=ml*rng.uniform(0.3,2)
    ra1=(c[0]+rng.normal(0,sc,n1)/np.cos(np.deg2rad(c[1])))%360; dec1=c[1]+rng.normal(0,sc,n1)
    ra2=(c[0]+rng.normal(0,sc,n2)/np.cos(np.deg2rad(c[1])))%360; dec2=c[1]+rng.normal(0,sc,n2)
    if rng.random()<0.3: ra2[:min(n1,n2)]=ra1[:min(n1,n2)]; dec2[:min(n1,n2)]=dec1[:min(n1,n2)]  # exact ties at distance 0
    f1,f2,fd=spherematch(ra1,dec1,ra2,dec2,ml,maxmatch=0)
    for k in (1,2,3):
        m1,m2,d=spherematch(ra1,dec1,ra2,dec2,ml,maxmatch=k)
        full={(a,b):x for a,b,x in zip(f1.tolist(),f2.tolist(),fd.tolist())}
        got=list(zip(m1.tolist(),m2.tolist()))
        if len(set(got))!=len(got) or not set(got)<=set(full): bad.setdefault(('subset',k),[]).append(it); continue
        if any(full[g]!=x for g,x in zip(got,d.tolist())): bad.setdefault(('dist',k),[]).append(it)
        if len(d)>1 and (np.diff(d)<0).any(): bad.setdefault(('order',k),[]).append(it)
        c1=np.bincount(m1,minlength=n1) if len(m1) else np.zeros(n1,int); c2=np.bincount(m2,minlength=n2) if len(m2) else np.zeros(n2,int)
        if (c1>k).any() or (c2>k).any(): bad.setdefault(('count',k),[]).append(it)
        gs=set(got)
        for (a,b),x in full.items():
            if (a,b) in gs: continue
            ua=sum(1 for (p,q),y in zip(got,d.tolist()) if p==a and y<=x); ub=sum(1 for (p,q),y in zip(got,d.tolist()) if q==b and y<=x)
            if ua<k and ub<k: bad.setdefault(('omitted-unjustified',k),[]).append((it,a,b)); break
for k,v in bad.items(): print(k,len(v),v[:3])
print('done')
