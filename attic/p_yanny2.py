import numpy as np, os, tempfile, warnings, io, traceback
from pydl.pydlutils.yanny import yanny, write_ndarray_to_yanny
d = tempfile.mkdtemp()
n=[0]
def fnew():
    n[0]+=1; return os.path.join(d,'f%d.par'%n[0])
def trial(label, f):
    try:
        r = f(); print('OK  ', label, r)
    except Exception as e:
        print('FAIL', label, type(e).__name__, e)
# zero-row
def z():
    a = np.zeros(0, dtype=[('a','i4'),('s','S3'),('fa','f8',(2,))])
    fn=fnew(); write_ndarray_to_yanny(fn, a, structnames='zz'); b = yanny(fn); return b['ZZ'].dtype, len(b['ZZ'])
trial('zero-row', z)
# substr names
def s():
    a = np.zeros(2, dtype=[('a','i4')]); b = np.ones(2, dtype=[('b','f8')])
    fn=fnew(); write_ndarray_to_yanny(fn, (a,b), structnames=('AB','ABC')); y = yanny(fn); return y['AB'], y['ABC']
trial('substr names', s)
def s2():
    a = np.zeros(2, dtype=[('a','i4')]); b = np.ones(2, dtype=[('ab','f8')])
    fn=fnew(); write_ndarray_to_yanny(fn, (a,b), structnames=('AB','XY')); y = yanny(fn); return y['AB'], y['XY']
trial('name equals column elsewhere', s2)
def s3():
    a = np.zeros(2, dtype=[('a','i4'),('ab','i4'),('b','f8')]); a['ab']=[1,2]; a['b']=[3,4]
    fn=fnew(); write_ndarray_to_yanny(fn, a, structnames='T'); y = yanny(fn); return y['T']
trial('column name substr of other column', s3)
def s4():
    a = np.zeros(2, dtype=[('xa','f8'),('a','i4')]); a['xa']=[1.5,2.5]; a['a']=[3,4]
    fn=fnew(); write_ndarray_to_yanny(fn, a, structnames='T'); y = yanny(fn); return y['T'], y['T'].dtype
trial('column name suffix of earlier column', s4)
def h():
    a = np.zeros(1, dtype=[('a','i4')])
    fn=fnew(); write_ndarray_to_yanny(fn, a, structnames='T', hdr={'k1': 5, 'k2': 'a  b;c', 'k3':'', 'enumx': 1.5}); y = yanny(fn); return [(k, y[k]) for k in y.pairs()]
trial('hdr', h)
def h2():
    a = np.zeros(1, dtype=[('a','i4')])
    fn=fnew(); write_ndarray_to_yanny(fn, a, structnames='T', hdr={'enum': 'x'}); y = yanny(fn); return [(k, y[k]) for k in y.pairs()]
trial('hdr key enum', h2)
def u():
    for t in ('u4','i1','b1','f2','c8','u1','u8'):
        a = np.zeros(1, dtype=[('a',t)])
        fn=fnew()
        try:
            write_ndarray_to_yanny(fn, a, structnames='T'); print('  written!', t, open(fn).read()[-40:])
        except Exception as e:
            print('  refused', t, type(e).__name__, e, os.path.exists(fn))
trial('unsupported', u)
def e():
    a = np.zeros(3, dtype=[('a','i4'),('st','S10')]); a['st']=[b'ON',b'OFF',b'ON']
    fn=fnew(); write_ndarray_to_yanny(fn, a, structnames='T', enums={'st':('STATE',('ON','OFF'))}); y = yanny(fn); return y['T'], y['T'].dtype, y._symbols['enum']
trial('enum', e)
def e2():
    a = np.zeros(3, dtype=[('a','i4'),('st','S10')]); a['st']=[b'ON',b'OFF',b'ON']
    b = np.zeros(2, dtype=[('q','S3')]); b['q']=[b'Y',b'N']
    fn=fnew(); write_ndarray_to_yanny(fn, (a,b), structnames=('T','U'), enums={'st':('STATE',('ON','OFF')),'q':('YN',('Y','N'))}); y = yanny(fn); print(open(fn).read()); return y['T'], y['U'].dtype, y._symbols['enum']
trial('enum 2 tables', e2)
def us():
    a = np.zeros(2, dtype=[('s','U5')]); a['s']=['ab','c d']
    fn=fnew(); write_ndarray_to_yanny(fn, a, structnames='T'); y = yanny(fn); return y['T'], y['T'].dtype
trial('U string', us)
