import numpy as np, os, tempfile, warnings
warnings.simplefilter('ignore')
from pydl.pydlutils.yanny import yanny, write_ndarray_to_yanny
d=tempfile.mkdtemp(); fn=os.path.join(d,'a.par')
a=np.zeros(1,dtype=[('a','i4')])
par=write_ndarray_to_yanny(fn,a,structnames='tab',hdr={'k':'v'})
par.append({'k':'v2'})
print(open(fn).read())
print([(k,par[k]) for k in par.pairs()])
y=yanny(fn); print([(k,y[k]) for k in y.pairs()])
par.append({'k3':'v3'})
print([(k,par[k]) for k in par.pairs()])
y=yanny(fn); print([(k,y[k]) for k in y.pairs()])
