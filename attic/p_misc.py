import numpy as np, warnings, sys, traceback
warnings.simplefilter('ignore')
def t(label,f):
    try:
        r=f(); print('OK  ',label,r)
    except Exception as e:
        print('FAIL',label,type(e).__name__,str(e)[:120])
import pydl.pydlutils.mangle as M
from pydl.goddard.astro import gcirc, airtovac, vactoair
rng=np.random.default_rng(1)
# cap centre
def capcentre():
    bad=0
    for i in range(2000):
        v=rng.normal(size=3); v/=np.linalg.norm(v)
        cm=rng.uniform(1e-6,1.9)*rng.choice([1,1])
        r=M.is_in_cap(v,cm,v[None,:])
        if not r[0]: bad+=1
    return bad
t('cap centre outside count /2000', capcentre)
def capcentre_radec():
    bad=0
    for i in range(2000):
        ra=rng.uniform(0,360); dec=rng.uniform(-90,90)
        x,cm=M.circle_cap(1.0,np.array([[ra,dec]]))
        r=M.is_in_cap(x[0],cm[0],np.array([[ra,dec]]))
        if not r[0]: bad+=1
    return bad
t('cap centre radec outside /2000', capcentre_radec)
def usecaps():
    x=rng.normal(size=(5,3)); x/=np.linalg.norm(x,axis=1)[:,None]; cm=rng.uniform(0.1,1,5)
    p=M.ManglePolygon(x=x,cm=cm)
    return [ (il, bin(M.set_use_caps(p,il))) for il in ([0,2],[1],[4,3],[2,2,0]) ]
t('set_use_caps', usecaps)
def negdoubles():
    x=np.array([[0,0,1.],[0,0,1.],[1,0,0.]]); cm=np.array([-0.5,-0.1,0.3])
    p=M.ManglePolygon(x=x,cm=cm); return bin(M.set_use_caps(p,[0,1,2]))
t('set_use_caps both-negative same x (expect 0b111)', negdoubles)
# gcirc antipodal
def anti():
    nan=0
    for i in range(5000):
        ra=rng.uniform(0,360); dec=rng.uniform(-90,90)
        d=gcirc(ra,dec,(ra+180)%360,-dec,units=2)
        if np.isnan(d): nan+=1
    return nan
t('gcirc antipodal NaN /5000', anti)
def xta():
    nan=0
    for i in range(20000):
        th=10**rng.uniform(-9,0.5) if rng.random()<0.5 else 180-10**rng.uniform(-9,0.5)
        a=np.array([[rng.uniform(0,360),th]]); b=M.x_to_angles(M.angles_to_x(a))
        if np.isnan(b).any(): nan+=1
    return nan
t('x_to_angles NaN /20000', xta)
# airtovac
import astropy.units as u
t('airtovac scalar Q', lambda: airtovac(5000.0*u.AA))
t('airtovac array Q nm', lambda: airtovac(np.array([150.,500.,900.])*u.nm))
t('vactoair scalar Q', lambda: vactoair(5000.0*u.AA))
t('airtovac 0-d array', lambda: airtovac(np.array(5000.0)))
t('airtovac int array', lambda: airtovac(np.array([1000,5000])))
t('airtovac f32 array', lambda: airtovac(np.array([1000,5000],dtype='f4')))
t('airtovac np.float64', lambda: airtovac(np.float64(5000)))
def inv():
    a=np.concatenate([rng.uniform(2000,300000,2000)]); return float(np.abs(vactoair(airtovac(a))-a).max())
t('vactoair(airtovac(a))-a max', inv)
def inv2():
    v=rng.uniform(2000.7,300000,2000); return float(np.abs(airtovac(vactoair(v))-v).max())
t('airtovac(vactoair(v))-v max', inv2)
t('inv2 near 2000', lambda: (lambda v: (vactoair(v), airtovac(vactoair(v))-v))(np.array([2000.0,2000.3,2000.6,2000.7,2001.0])))
