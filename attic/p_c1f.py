import numpy as np, warnings, sys, traceback
warnings.simplefilter('ignore')
import pydl.pydlutils.sdss as S
S.maskbits={"SPPIXMASK":{"NOPLUG":0,"NODATA":24,"COMBINEREJ":25,"BADSKYCHI":27,"REDMONSTER":28}}
from pydl.pydlspec2d.spec2d import combine1fiber
from pydl.pydlspec2d.spec1d import preprocess_spectra
def t(label,f):
    try:
        r=f(); print('OK  ',label,r)
    except Exception as e:
        print('FAIL',label,type(e).__name__,str(e)[:100]); traceback.print_exc(limit=-2)
n=200; ll=3.6+1e-4*np.arange(n); fl=np.sin(ll*300)+5; iv=np.full(n,4.0)
def summ(nf,ni):
    return dict(finite=bool(np.isfinite(nf).all() and np.isfinite(ni).all()), nonneg=bool((ni>=0).all()), nz=int((ni>0).sum()), maxerr=None)
t('same grid', lambda: (lambda r: (summ(*r), float(np.abs(r[0]-fl)[r[1]>0].max())))(combine1fiber(ll,fl,ll,objivar=iv.copy())))
t('no ivar', lambda: summ(*combine1fiber(ll,fl,ll)))
t('wider', lambda: (lambda r: (summ(*r), np.nonzero(r[1]>0)[0][[0,-1]]))(combine1fiber(ll,fl,3.6+1e-4*np.arange(-50,300),objivar=iv.copy())))
t('outside entirely', lambda: summ(*combine1fiber(ll,fl,3.7+1e-4*np.arange(100),objivar=iv.copy())))
t('outside entirely mean', lambda: summ(*combine1fiber(ll,fl,3.7+1e-4*np.arange(100),objivar=iv.copy(),aesthetics='mean')))
t('all zero ivar', lambda: summ(*combine1fiber(ll,fl,ll,objivar=np.zeros(n))))
iv2=iv.copy(); iv2[50:60]=0; iv2[100]=0
t('gaps', lambda: (lambda r: (summ(*r), np.nonzero(r[1]==0)[0]))(combine1fiber(ll,fl,ll,objivar=iv2.copy())))
t('shifted', lambda: (lambda r: (summ(*r), np.nonzero(r[1]==0)[0]))(combine1fiber(ll,fl,ll+0.4e-4,objivar=iv2.copy())))
for m in ('traditional','noconst','mean','nothing','damp'):
    t('aes '+m, lambda: summ(*combine1fiber(ll,fl,3.6+1e-4*np.arange(-50,300),objivar=iv2.copy(),aesthetics=m)))
ll2=np.vstack([ll,ll+0.3e-4]); fl2=np.vstack([fl,np.sin(ll2[1]*300)+5]); iv3=np.full((2,n),4.0)
t('2d', lambda: (lambda r: (summ(*r), float(np.abs(r[0]-fl)[r[1]>0].max())))(combine1fiber(ll2,fl2,ll,objivar=iv3.copy())))
t('preprocess', lambda: (lambda r: (r[0].shape, float(r[2][0]), float(r[2][-1])))(preprocess_spectra(fl2, iv3.copy(), loglam=ll2, zfit=np.array([0.0,0.01]), newloglam=ll)))
t('const', lambda: (lambda r: float(np.abs(r[0]-7)[r[1]>0].max()))(combine1fiber(ll,np.full(n,7.0),ll+0.5e-4,objivar=iv.copy())))
