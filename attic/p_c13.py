import numpy as np, warnings, sys
warnings.simplefilter('ignore')
from pydl.pydlutils.trace import func_fit, xy2traceset, traceset2xy, fchebyshev_split
from pydl.pydlspec2d.spec1d import HMF
from numpy.polynomial import legendre as L, chebyshev as C
rng=np.random.default_rng(int(sys.argv[1]) if len(sys.argv)>1 else 0)
bad={}
def basis(fn,x,m):
    if fn=='legendre': return np.array([L.legval(x,[0]*k+[1]) for k in range(m)])
    if fn=='chebyshev': return np.array([C.chebval(x,[0]*k+[1]) for k in range(m)])
    return np.array([x**k for k in range(m)])
for it in range(2000):
    n=int(rng.integers(8,60)); nc=int(rng.integers(1,8)); fn=str(rng.choice(['legendre','chebyshev','poly']))
    x=np.sort(rng.uniform(-1,1,n)); iv=rng.uniform(0.2,3,n); iv[rng.random(n)<0.2]=0
    if (iv>0).sum()<nc+2: continue
    ia=rng.random(nc)>0.3
    if not ia.any(): ia[0]=True
    ans=rng.normal(size=nc)
    y=rng.normal(size=n)
    use_ia = rng.random()<0.6
    try:
        if use_ia: res,yfit=func_fit(x,y,nc,invvar=iv,function_name=fn,ia=ia,inputans=ans)
        else: res,yfit=func_fit(x,y,nc,invvar=iv,function_name=fn)
    except Exception as e:
        bad.setdefault(('exc',type(e).__name__,str(e)[:60],use_ia,int(ia.sum())),[]).append(it); continue
    B=basis(fn,x,nc).T; w=np.sqrt(iv)
    if use_ia:
        fixed=~ia; yy=y-B[:,fixed]@ans[fixed]; c,*_=np.linalg.lstsq(B[:,ia]*w[:,None],yy*w,rcond=None); ref=np.zeros(nc); ref[ia]=c; ref[fixed]=ans[fixed]
    else:
        ref,*_=np.linalg.lstsq(B*w[:,None],y*w,rcond=None)
    cond=np.linalg.cond((B[:,ia] if use_ia else B)*w[:,None])
    if cond<1e6 and not np.allclose(res,ref,rtol=1e-6,atol=1e-8): bad.setdefault(('coef',fn,use_ia),[]).append((it,float(np.abs(res-ref).max()),nc,int(ia.sum())))
    if not np.allclose(yfit,B@res,atol=1e-9): bad.setdefault(('yfit',),[]).append(it)
# HMF steps
for it in range(60):
    N=int(rng.integers(6,15)); M=int(rng.integers(15,40)); K=int(rng.integers(1,4))
    G=rng.normal(size=(K,M)); A=rng.normal(size=(N,K)); sp=A@G+rng.normal(0,0.05,(N,M)); iv=rng.uniform(0.5,2,(N,M)); iv[rng.random((N,M))<0.1]=0
    eps=rng.choice([None,0.0,0.3])
    h=HMF(sp,iv,K=K,epsilon=eps); h.g=rng.normal(size=(K,M)); h.a=rng.normal(size=(N,K))
    b0=h.badness(); a=h.astep()
    ref=np.array([np.linalg.lstsq(h.g.T*np.sqrt(iv[i])[:,None],sp[i]*np.sqrt(iv[i]),rcond=None)[0] for i in range(N)])
    if not np.allclose(a,ref,rtol=1e-6,atol=1e-8): bad.setdefault(('astep',),[]).append(it)
    h.a=a; b1=h.badness()
    if b1>b0*(1+1e-9): bad.setdefault(('astep-mono',),[]).append((b0,b1))
    g=h.gstep()
    if not eps:
        refg=np.array([np.linalg.lstsq(h.a*np.sqrt(iv[:,j])[:,None],sp[:,j]*np.sqrt(iv[:,j]),rcond=None)[0] for j in range(M)]).T
        if not np.allclose(g,refg,rtol=1e-6,atol=1e-8): bad.setdefault(('gstep',),[]).append(it)
        h.g=g; b2=h.badness()
        if b2>b1*(1+1e-9): bad.setdefault(('gstep-mono',),[]).append((b1,b2))
for k,v in bad.items(): print(k,len(v),v[:3])
print('done')
