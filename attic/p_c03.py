import numpy as np, os, sys, tempfile, shutil, warnings, traceback
from hypothesis import settings, strategies as st, HealthCheck, seed
from hypothesis.stateful import RuleBasedStateMachine, rule, invariant, precondition, initialize, run_state_machine_as_test
from pydl.pydlutils.yanny import yanny, write_ndarray_to_yanny
from pydl.pydlutils import PydlutilsException, PydlutilsUserWarning
warnings.simplefilter('ignore')
ident=st.from_regex(r'[A-Za-z][A-Za-z0-9_]{1,5}',fullmatch=True)
sval=st.text(alphabet='abXY01 \t#;,.',max_size=6)
COLTYPES=['i2','i4','i8','f4','f8','S6','aS4','ai4','af8']
def cell(ct):
    if ct=='i2': return st.integers(-2**15,2**15-1)
    if ct=='i4': return st.integers(-2**31,2**31-1)
    if ct=='i8': return st.integers(-2**63,2**63-1)
    if ct=='f4': return st.floats(width=32,allow_nan=False)
    if ct=='f8': return st.floats(allow_nan=False)
    if ct=='S6': return sval
    if ct=='aS4': return st.lists(st.text(alphabet='abXY01 #;',max_size=4),min_size=2,max_size=2)
    if ct=='ai4': return st.lists(st.integers(-2**31,2**31-1),min_size=3,max_size=3)
    if ct=='af8': return st.lists(st.floats(allow_nan=False),min_size=2,max_size=2)
def npdt(ct):
    return {'aS4':('S4',(2,)),'ai4':('i4',(3,)),'af8':('f8',(2,))}.get(ct,(ct,))
class M(RuleBasedStateMachine):
    raw=False
    def __init__(self):
        super().__init__(); self.dir=tempfile.mkdtemp(prefix='c03'); self.n=0; self.obj=None
    def teardown(self): shutil.rmtree(self.dir,ignore_errors=True)
    def newname(self): self.n+=1; return os.path.join(self.dir,'f%d.par'%self.n)
    @initialize(data=st.data())
    def create(self,data):
        nt=data.draw(st.integers(1,2)); names=data.draw(st.lists(ident,min_size=nt,max_size=nt,unique_by=lambda s:s.upper()))
        names=[n+'_%d'%i for i,n in enumerate(names)]  # avoid substring defect D1
        self.tables={}; arrs=[]
        for nm in names:
            nc=data.draw(st.integers(1,4)); cn=data.draw(st.lists(ident,min_size=nc,max_size=nc,unique=True)); cts=[data.draw(st.sampled_from(COLTYPES)) for _ in cn]
            nr=data.draw(st.integers(1,3))
            rows=[[data.draw(cell(ct)) for ct in cts] for _ in range(nr)]
            dt=[(c,)+npdt(ct) for c,ct in zip(cn,cts)]
            a=np.zeros(nr,dtype=dt)
            for j,c in enumerate(cn): a[c]=[r[j] for r in rows]
            arrs.append(a); self.tables[nm.upper()]=dict(cols=cn,cts=cts,rows=rows)
        self.pairs={}
        hdr={k:data.draw(sval).replace('#','').strip() for k in data.draw(st.lists(ident,max_size=2,unique_by=lambda s:s.upper()))}
        fn=self.newname()
        self.obj=write_ndarray_to_yanny(fn,tuple(arrs),structnames=tuple(names),hdr=hdr or None)
        self.pairs.update(hdr); self.fn=fn; self.bytes=open(fn,'rb').read()
        if self.raw: self.obj=yanny(fn,raw=True)
    def check(self,obj,label):
        assert set(obj.tables())==set(self.tables),(label,'tables')
        for tn,t in self.tables.items():
            for j,(c,ct) in enumerate(zip(t['cols'],t['cts'])):
                got=obj[tn][c]; exp=[r[j] for r in t['rows']]
                assert len(got)==len(exp),(label,tn,c,'len',len(got),len(exp))
                for g,e in zip(got,exp):
                    if ct in('S6',): g=g.decode() if isinstance(g,bytes) else g; assert g==e,(label,tn,c,g,e)
                    elif ct=='aS4': g=[x.decode() if isinstance(x,bytes) else x for x in g]; assert list(g)==e,(label,tn,c,g,e)
                    elif ct in('f4',): assert np.float32(g)==np.float32(e),(label,tn,c,g,e)
                    elif ct in('f8',): assert float(g)==e,(label,tn,c,g,e)
                    elif ct=='af8': assert [float(x) for x in g]==e,(label,tn,c)
                    elif ct=='ai4': assert [int(x) for x in g]==e,(label,tn,c)
                    else: assert int(g)==e,(label,tn,c,g,e)
        assert {k:obj[k] for k in obj.pairs()}=={k:str(v) for k,v in self.pairs.items()},(label,'pairs',{k:obj[k] for k in obj.pairs()},self.pairs)
    @invariant()
    def coherent(self):
        if self.obj is None: return
        self.check(self.obj,'live'); self.check(yanny(self.fn),'fresh'); self.check(yanny(self.fn,raw=True),'freshraw')
        b=open(self.fn,'rb').read(); assert b.startswith(self.bytes),'prefix'; self.bytes=b
    @rule(data=st.data())
    def append_rows(self,data):
        payload={}
        for tn in data.draw(st.lists(st.sampled_from(sorted(self.tables)),min_size=1,unique=True)):
            t=self.tables[tn]; nr=data.draw(st.integers(1,2))
            rows=[[data.draw(cell(ct)) for ct in t['cts']] for _ in range(nr)]
            key=tn.lower() if data.draw(st.booleans()) else tn
            if data.draw(st.booleans()) and not self.raw:
                a=np.zeros(nr,dtype=[(c,)+npdt(ct) for c,ct in zip(t['cols'],t['cts'])])
                for j,c in enumerate(t['cols']): a[c]=[r[j] for r in rows]
                payload[key]=a
            else: payload[key]={c:[r[j] for r in rows] for j,c in enumerate(t['cols'])}
            t['rows']=t['rows']+rows
        if data.draw(st.booleans()):
            k=data.draw(ident.filter(lambda s: s.upper() not in self.tables and s not in self.pairs and s.upper() not in {p.upper() for p in self.pairs} and s!='symbols'))
            v=data.draw(sval).replace('#','').strip(); payload[k]=v; self.pairs[k]=v
        self.obj.append(payload)
    @rule()
    def append_empty(self):
        with warnings.catch_warnings(record=True) as w:
            warnings.simplefilter('always'); self.obj.append({})
        assert any(issubclass(x.category,PydlutilsUserWarning) for x in w)
        assert open(self.fn,'rb').read()==self.bytes
    @rule()
    def write_over(self):
        try: self.obj.write(); assert False,'no raise'
        except PydlutilsException: pass
        assert open(self.fn,'rb').read()==self.bytes
    @rule()
    def write_copy(self):
        old=self.fn; ob=self.bytes; fn=self.newname(); self.obj.write(fn)
        assert open(old,'rb').read()==ob; assert self.obj.filename==fn
        self.fn=fn; self.bytes=b''
    @rule()
    def append_missing(self):
        o=yanny(self.fn,raw=self.raw); o.filename=os.path.join(self.dir,'missing.par')
        try: o.append({'zzk':'v'}); assert False,'no raise'
        except PydlutilsException: pass
        assert not os.path.exists(o.filename)
    @rule()
    def reread(self): self.obj=yanny(self.fn,raw=self.raw)
class MR(M): raw=True
for cls in (M,MR):
    try:
        run_state_machine_as_test(seed(int(sys.argv[1]))(cls),settings=settings(max_examples=int(sys.argv[2]),stateful_step_count=15,deadline=None,database=None,suppress_health_check=list(HealthCheck)))
        print(cls.__name__,'ok')
    except Exception as e:
        print(cls.__name__,'FAIL'); traceback.print_exc()
