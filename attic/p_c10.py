import numpy as np, warnings, sys
warnings.simplefilter('ignore')
from pydl.pydlutils.bspline import iterfit
from scipy.interpolate import BSpline
rng=np.random.default_rng(int(sys.argv[1]) if len(sys.argv)>1 else 0)
def design(t,nord,x):
    nc=len(t)-nord; A=np.zeros((len(x),nc))
    for j in range(nc):
        c=np.zeros(nc); c[j]=1
        A[:,j]=np.nan_to_num(BSpline(t,c,nord-1,extrapolate=False)(x))
    # close right end
    last=x>=t[len(t)-nord]
    if last.any():
        xe=np.nextafter(t[len(t)-nord],-np.inf)
        for j in range(nc):
            c=np.zeros(nc); c[j]=1; A[last,j]=BSpline(t,c,nord-1,extrapolate=False)(xe)
    return A
bad={}
for it in range(200):
    n=int(rng.integers(40,150)); nord=int(rng.integers(2,5))
    x=rng.uniform(0,10,n); y=np.sin(x)+rng.normal(0,0.05,n)
    nout=int(rng.integers(0,4)); io=rng.choice(n,nout,replace=False); y[io]+=rng.choice([-1,1],nout)*rng.uniform(2,5,nout)
    iv=np.full(n,400.0); iv[rng.random(n)<0.1]=0
    maxiter=int(rng.choice([0,1,2,3,10])); up=float(rng.uniform(3,6)); lo=float(rng.uniform(3,6))
    kw=dict(nord=nord,maxiter=maxiter,upper=up,lower=lo,nbkpts=int(rng.integers(3,8)))
    s,m=iterfit(x,y,invvar=iv,**kw)
    t=s.breakpoints.astype('d'); A=design(t,nord,x)
    mask=iv>0; near=False
    for i in range(maxiter+1):
        w=np.sqrt(iv*mask)
        c,*_=np.linalg.lstsq(A*w[:,None],y*w,rcond=None)
        r=(y-A@c)*np.sqrt(np.where(iv>0,iv,0))
        if (np.abs(np.abs(r[mask]+0)-0)>=0).all():
            if (np.abs(r+lo)<1e-6).any() or (np.abs(r-up)<1e-6).any(): near=True
        newmask=mask&~((r<-lo)|(r>up))
        done=(newmask==mask).all(); mask=newmask
        if done: break
    if near: bad.setdefault('near',[]).append(it); continue
    xe=np.linspace(t[nord-1],t[len(t)-nord],40); v,_=s.value(xe); ref=design(t,nord,xe)@c
    if not np.allclose(v,ref,rtol=1e-6,atol=1e-7): bad.setdefault(('curve',maxiter),[]).append((it,float(np.abs(v-ref).max())))
    if not (m==mask).all(): bad.setdefault(('mask',maxiter),[]).append((it,int((m!=mask).sum())))
for k,v in bad.items(): print(k,len(v),v[:3])
print('done')
