import numpy as np, warnings, sys, traceback
warnings.simplefilter('ignore')
def t(label,f):
    try:
        r=f(); print('OK  ',label,r)
    except Exception as e:
        print('FAIL',label,type(e).__name__,str(e)[:160]); traceback.print_exc(limit=-1)
rng=np.random.default_rng(3)
from pydl.pydlutils.trace import fchebyshev, fpoly, fchebyshev_split, func_fit, xy2traceset, traceset2xy, TraceSet
from pydl.goddard.math import flegendre
from numpy.polynomial import legendre as L, chebyshev as C
x=rng.uniform(-1,1,15)
t('fleg', lambda: np.abs(flegendre(x,12)-np.array([L.legval(x,[0]*k+[1]) for k in range(12)])).max())
t('fcheb', lambda: np.abs(fchebyshev(x,12)-np.array([C.chebval(x,[0]*k+[1]) for k in range(12)])).max())
t('fpoly', lambda: np.abs(fpoly(x,12)-np.array([x**k for k in range(12)])).max())
t('fleg scalar', lambda: flegendre(0.3,4).T)
t('fleg f32', lambda: flegendre(x.astype('f4'),4).dtype)
y=2+3*x-x**2
t('func_fit exact', lambda: func_fit(x,y,3,function_name='poly')[0])
iv=np.ones(15); iv[3]=0; y2=y.copy(); y2[3]=100
t('func_fit zero-weight', lambda: func_fit(x,y2,3,invvar=iv,function_name='legendre')[0])
t('func_fit fixed', lambda: func_fit(x,y,3,function_name='poly',ia=np.array([True,False,True]),inputans=np.array([0,3.0,0]))[0])
t('func_fit fixed2', lambda: func_fit(x,y,4,function_name='chebyshev',ia=np.array([False,True,True,False]),inputans=np.array([1.0,0,0,0.5]))[0])
t('func_fit weights', lambda: (lambda w: np.abs(func_fit(x,y+rng.normal(size=15),4,invvar=w,function_name='legendre')[0]).shape)(rng.uniform(0.1,3,15)))
xp=np.tile(np.arange(50,dtype='d'),(3,1)); yp=np.array([1+0.01*xp[0], 2-0.02*xp[1]+1e-4*xp[1]**2, np.sin(xp[2]/20)])
def ts(**kw):
    tset=xy2traceset(xp,yp,**kw); xx,yy=traceset2xy(tset,xp); return np.abs(yy-tset.yfit).max(), tset.coeff.shape
t('traceset', lambda: ts(ncoeff=4))
t('traceset cheb', lambda: ts(ncoeff=5,func='chebyshev'))
t('traceset poly', lambda: ts(ncoeff=3,func='poly'))
t('traceset jump', lambda: ts(ncoeff=4,xjumplo=20.,xjumphi=25.,xjumpval=1.5))
t('traceset default grid', lambda: (lambda tset: (traceset2xy(tset)[0][0,[0,1,-1]], tset.xmin, tset.xmax))(xy2traceset(xp,yp,ncoeff=3)))
t('traceset default grid frac', lambda: (lambda tset: (traceset2xy(tset)[0][0,[0,1,-1]], tset.xmin, tset.xmax))(xy2traceset(xp+0.5,yp,ncoeff=3,xmin=0.5,xmax=49.5)))
# HMF
from pydl.pydlspec2d.spec1d import HMF, pca_solve
N,Mp,K=12,40,2
G=np.abs(rng.normal(size=(K,Mp)))+0.5; Acf=np.abs(rng.normal(size=(N,K)))+0.5
sp=Acf@G+rng.normal(0,0.01,(N,Mp)); ivv=np.full((N,Mp),1e4); ivv[rng.random((N,Mp))<0.05]=0
def hmf(nn,eps):
    sp0=sp.copy(); iv0=ivv.copy()
    h=HMF(sp0,iv0,K=K,n_iter=5,seed=5,nonnegative=nn,epsilon=eps); out=h.solve()
    return h.badness(), np.sqrt((h.g**2).mean(1)), (sp0==sp).all(), (iv0==ivv).all(), h.a.min()>=0, h.g.min()>=0
t('hmf', lambda: hmf(False,None))
t('hmf eps', lambda: hmf(False,0.1))
t('hmf nn', lambda: hmf(True,None))
t('hmf nn eps', lambda: hmf(True,0.1))
def pca():
    out=pca_solve(sp.copy(),ivv.copy(),nkeep=2,niter=3)
    return {k:(v.shape if hasattr(v,'shape') else v) for k,v in out.items()}, np.diff(out['eigenval'])
t('pca_solve', pca)
