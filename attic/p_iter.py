import numpy as np, warnings, sys, traceback
warnings.simplefilter('ignore')
from pydl.pydlutils.bspline import bspline, iterfit
rng=np.random.default_rng(int(sys.argv[1]) if len(sys.argv)>1 else 0)
fails={}
def F(k,v): fails.setdefault(k,[]).append(v)
for it in range(300):
    n=int(rng.integers(40,150)); nord=int(rng.integers(2,5))
    x=rng.uniform(0,10,n)  # unsorted
    y=np.sin(x)+rng.normal(0,0.05,n)
    nout=int(rng.integers(0,4)); io=rng.choice(n,nout,replace=False); y[io]+=rng.choice([-1,1],nout)*rng.uniform(2,5,nout)
    iv=np.full(n,400.0); z=rng.random(n)<0.1; iv[z]=0; 
    if rng.random()<0.3: iv[rng.random(n)<0.05]=-1.0
    maxiter=int(rng.choice([0,1,3,10]))
    kw=dict(nord=nord, maxiter=maxiter, upper=float(rng.uniform(3,6)), lower=float(rng.uniform(3,6)))
    if rng.random()<0.5: kw['nbkpts']=int(rng.integers(3,8))
    else: kw['bkspace']=float(rng.uniform(1.5,4))
    try:
        s1,m1=iterfit(x,y,invvar=iv,**kw)
        p=rng.permutation(n)
        s2,m2=iterfit(x[p],y[p],invvar=iv[p],**kw)
    except Exception as e:
        F(('exc',type(e).__name__,str(e)[:60]),it); continue
    xe=np.linspace(x.min(),x.max(),50)
    v1,_=s1.value(xe); v2,_=s2.value(xe)
    if not np.allclose(v1,v2,rtol=1e-7,atol=1e-9): F(('perm-curve',maxiter),(it,np.abs(v1-v2).max()))
    if not (m1[p]==m2).all(): F(('perm-mask',maxiter),it)
    if m1[iv<=0].any(): F(('nonpos-flagged-true',maxiter),it)
    if maxiter==0 and not m1[iv>0].all(): F(('maxiter0 mask',),it)
    if maxiter>=3 and nout>0:
        if m1[io][iv[io]>0].any(): F(('outlier kept',maxiter),(it,nout))
for k,v in fails.items(): print(k,len(v),v[:3])
print('done')
