import numpy as np, io, sys, warnings, traceback, os, tempfile
warnings.simplefilter('ignore')
from hypothesis import given, settings, strategies as st, HealthCheck, seed
from pydl.pydlutils.yanny import yanny
ident = st.from_regex(r'[A-Za-z][A-Za-z0-9_]{0,6}', fullmatch=True)
STR_ALPHA = 'abcXYZ019 \t#;{}\',.:=\\-_'
def okstr(s, in_array):
    if s.startswith('{'): return False
    if in_array and '}' in s: return False
    import re
    if re.search(r'\{\s*\{\s*\}\s*\}', s): return False
    return True
strs = st.text(alphabet=STR_ALPHA, max_size=8)
@st.composite
def column(draw, enums):
    kinds = ['short','int','long','float','double','char','charv'] + (['enum'] if enums else [])
    k = draw(st.sampled_from(kinds))
    arr = draw(st.sampled_from([0,0,1,2,3]))
    width = draw(st.integers(1,10)) if k=='char' else None
    en = draw(st.sampled_from(sorted(enums))) if k=='enum' else None
    return dict(kind=k, arr=arr, width=width, enum=en)
def cellstrategy(col, enums):
    k=col['kind']
    if k=='short': b=st.integers(-2**15,2**15-1)
    elif k=='int': b=st.integers(-2**31,2**31-1)
    elif k=='long': b=st.integers(-2**63,2**63-1)
    elif k in('float','double'): b=st.sampled_from(['3','+3','3.','.5','1e5','1.0E-03','-2.5','0','17.546','6.02e23','-1e-30'])
    elif k=='char': b=strs.filter(lambda s: len(s)<=col['width'] and okstr(s,col['arr']>0) and (not s.endswith('\\')))
    elif k=='charv': b=strs.filter(lambda s: okstr(s,col['arr']>0) and (not s.endswith('\\')))
    else: b=st.sampled_from(enums[col['enum']])
    if col['arr']: return st.lists(b,min_size=col['arr'],max_size=col['arr'])
    return b
@st.composite
def document(draw):
    nen = draw(st.integers(0,2)); enums={}
    names = draw(st.lists(ident, min_size=nen+3+4, max_size=nen+3+4, unique_by=lambda s:s.upper()))
    for i in range(nen):
        enums[names.pop().upper()] = draw(st.lists(st.from_regex(r'[A-Z][A-Z0-9_]{0,5}',fullmatch=True),min_size=1,max_size=4,unique=True))
    ntab = draw(st.integers(1,3)); tables=[]
    for i in range(ntab):
        tname = names.pop()
        ncol = draw(st.integers(1,5))
        cnames = draw(st.lists(ident,min_size=ncol,max_size=ncol,unique=True))
        cols=[dict(draw(column(enums)),name=c) for c in cnames]
        nrow = draw(st.integers(0,4))
        if any(c['kind']=='charv' for c in cols): nrow=max(nrow,1)
        rows=[[draw(cellstrategy(c,enums)) for c in cols] for r in range(nrow)]
        tables.append(dict(name=tname,cols=cols,rows=rows))
    npair=draw(st.integers(0,3))
    tn={t['name'].upper() for t in tables}
    pairs=[]
    for i in range(npair):
        k=names.pop()
        v=draw(st.text(alphabet='abcXYZ019 \t;{}\',.:=-_"',max_size=10)).strip()
        import re
        if re.search(r'\{\s*\{\s*\}\s*\}', v) : v='x'
        pairs.append((k,v))
    return dict(enums=enums,tables=tables,pairs=pairs)
def ws(draw, minimum=1):
    return draw(st.text(alphabet=' \t',min_size=minimum,max_size=3))
def render_string(draw, s, in_array):
    import re
    choices=['q']
    if s!='' and not re.search(r'[\s#"{}]',s) : choices.append('bare')
    if s!='' and re.search(r'[{}#"]',s) is None and s==s.strip() and not in_array: choices.append('brace')
    if s=='' : choices += ['dbrace'] if not in_array else []
    c=draw(st.sampled_from(choices))
    if c=='q': return '"'+s+'"'
    if c=='bare': return s
    if c=='brace': return '{'+s+'}'
    return draw(st.sampled_from(['{{}}','{ { } }','{ {} }']))
def render_cell(draw,col,val):
    k=col['kind']
    def one(v, in_array):
        if k in('char','charv'): return render_string(draw,v,in_array)
        return str(v)
    if col['arr']:
        inner=ws(draw,1).join(one(v,True) for v in val)
        return '{'+ws(draw,0)+inner+ws(draw,0)+'}'
    return one(val,False)
def randcase(draw,s):
    return ''.join(ch.upper() if draw(st.booleans()) else ch.lower() for ch in s)
@st.composite
def rendering(draw, doc):
    lines=[]
    comment=lambda: '#'+draw(st.text(alphabet='abc "x" ,;',max_size=8).filter(lambda t:t.count('"')%2==0))
    tcomment=lambda: draw(st.sampled_from(['','','',' # note',' # a "quoted" note','\t#x']))
    if draw(st.booleans()): lines.append('#%yanny')
    blocks=[]
    for en,labels in doc['enums'].items():
        if draw(st.booleans()): b='typedef enum {\n'+',\n'.join('    '+l for l in labels)+'\n} '+en+';'
        else: b='typedef enum { '+', '.join(labels)+' } '+en+';'
        blocks.append(('def',b))
    for t in doc['tables']:
        mem=[]
        for c in t['cols']:
            ty={'short':'short','int':'int','long':'long','float':'float','double':'double','char':'char','charv':'char','enum':c['enum']}[c['kind']]
            legacy=draw(st.booleans())
            L,R=('<','>') if legacy else ('[',']')
            d=ty+ws(draw,1)+c['name']
            if c['arr']: d+=L+str(c['arr'])+R
            if c['kind']=='char': d+=L+str(c['width'])+R
            if c['kind']=='charv': d+=L+R
            d+=';'
            if draw(st.booleans()): d+=' # '+draw(st.text(alphabet='abc ,.',max_size=6))
            mem.append(d)
        multi = any('#' in m for m in mem) or draw(st.booleans())
        if multi: b='typedef struct {\n'+'\n'.join('  '+m for m in mem)+'\n} '+randcase(draw,t['name'])+';'
        else: b='typedef struct { '+' '.join(mem)+' } '+randcase(draw,t['name'])+';'
        blocks.append(('def',b))
    rowlines=[]
    queues=[[ (t,r) for r in t['rows']] for t in doc['tables']]
    queues=[q for q in queues if q]
    while queues:
        qi=draw(st.integers(0,len(queues)-1)); t,r=queues[qi].pop(0)
        if not queues[qi]: queues.pop(qi)
        toks=[randcase(draw,t['name'])]+[render_cell(draw,c,v) for c,v in zip(t['cols'],r)]
        line=ws(draw,0)
        for i,tok in enumerate(toks):
            if i>0:
                if draw(st.integers(0,5))==0: line+=ws(draw,1)+'\\'+ws(draw,0)+'\n'+ws(draw,0)
                else: line+=ws(draw,1)
            line+=tok
        line+=tcomment()
        rowlines.append(line)
    pairlines=[ws(draw,0)+k+ws(draw,1)+v+tcomment() for k,v in doc['pairs']]
    # pairs anywhere (before/after defs), rows after defs
    pre=[];post=[]
    for pl in pairlines: (pre if draw(st.booleans()) else post).append(pl)
    body=pre+[b for _,b in blocks]
    tail=rowlines+post
    # shuffle tail preserving relative order of rows (pairs may interleave)
    merged=[]; a=list(rowlines); b=list(post)
    while a or b:
        if a and (not b or draw(st.booleans())): merged.append(a.pop(0))
        else: merged.append(b.pop(0))
    out=[]
    for l in lines+body+merged:
        if draw(st.integers(0,4))==0: out.append(comment())
        if draw(st.integers(0,4))==0: out.append(ws(draw,0))
        out.append(l)
    nl=draw(st.sampled_from(['\n','\r\n']))
    text=nl.join(x.replace('\n',nl) for x in out)+nl
    return text
def expected(doc):
    exp={}
    for t in doc['tables']:
        cols=[]
        for j,c in enumerate(t['cols']):
            vals=[r[j] for r in t['rows']]
            k=c['kind']
            if k in('float','double'): conv=lambda v: float(v)
            else: conv=lambda v:v
            vals=[[conv(x) for x in v] if c['arr'] else conv(v) for v in vals]
            cols.append((c['name'],c,vals))
        exp[t['name'].upper()]=cols
    return exp
import re
def strip_pair(v):
    return v
fails={}
stats={'n':0}
@seed(int(sys.argv[1]) if len(sys.argv)>1 else 1)
@settings(max_examples=int(sys.argv[2]) if len(sys.argv)>2 else 300, database=None, deadline=None, suppress_health_check=list(HealthCheck))
@given(st.data())
def prop(data):
    doc=data.draw(document()); text=data.draw(rendering(doc))
    stats['n']+=1
    f=io.StringIO(text); f.mode='r'
    try:
        y=yanny(f)
    except Exception as e:
        tb=traceback.extract_tb(e.__traceback__)[-1]
        key=('exc',type(e).__name__,tb.name,tb.lineno)
        if key not in fails: fails[key]=(str(e)[:80],text)
        return
    exp=expected(doc)
    try:
        assert set(y.tables())==set(exp), ('tables',y.tables())
        for tn,cols in exp.items():
            assert y.columns(tn)==[c[0] for c in cols],('cols',tn)
            rec=y[tn]
            for name,c,vals in cols:
                got=rec[name]
                assert len(got)==len(vals),('nrows',tn,name,len(got),len(vals))
                k=c['kind']
                if k in('char','charv','enum'):
                    g=[[x.decode() for x in row] if c['arr'] else row.decode() for row in got]
                    assert g==vals,('str',tn,name,g,vals)
                elif k in('float','double'):
                    dt='f4' if k=='float' else 'f8'
                    assert np.array_equal(np.asarray(got),np.array(vals,dtype=dt).reshape(np.asarray(got).shape)),('flt',tn,name)
                else:
                    assert np.asarray(got).tolist()==vals,('int',tn,name)
        ep={}
        for k,v in doc['pairs']: ep[k]=v
        gp={k:y[k] for k in y.pairs()}
        assert gp==ep,('pairs',gp,ep)
    except AssertionError as e:
        key=('mismatch',str(e.args[0][0]))
        if key not in fails: fails[key]=(str(e.args[0])[:200],text)
prop()
print('examples',stats['n'])
for k,v in fails.items():
    print('=====',k,v[0]); print(v[1][:600])
