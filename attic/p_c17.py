import numpy as np, warnings, sys
warnings.simplefilter('ignore')
import pydl.pydlutils.sdss as S
from pydl.pydlutils.image import djs_maskinterp
from pydl.pydlspec2d.spec1d import skymask
from pydl.pydlspec2d.spec2d import aesthetics
from pydl.pydlutils.bspline import bspline
from pydl.goddard.astro import airtovac, vactoair
import astropy.units as u
rng=np.random.default_rng(int(sys.argv[1]))
bad={}
def ref1(y,m,x=None):
    good=~m
    if good.all() or not good.any(): return y.astype('d')
    if good.sum()==1: return np.full(y.shape,y[good][0],dtype='d')
    out=y.astype('d')
    if x is None: out[m]=np.interp(np.nonzero(m)[0],np.nonzero(good)[0],y[good])
    else:
        o=np.argsort(x[good]); out[m]=np.interp(x[m],x[good][o],y[good][o])
    return out
for it in range(1500):
    nd=int(rng.integers(1,4)); shape=tuple(int(rng.integers(1,7)) for _ in range(nd))
    y=rng.normal(size=shape); m=rng.random(shape)<rng.choice([0.0,0.2,0.5,0.9,1.0])
    usex=rng.random()<0.4; x=rng.permuted(np.arange(y.size,dtype='d')+rng.uniform(0,0.4,y.size)).reshape(shape) if usex else None
    ax=int(rng.integers(0,nd)) if nd>1 else None; const=bool(rng.random()<0.5)
    try: r=djs_maskinterp(y,m,xval=x,axis=ax,const=const)
    except Exception as e: bad.setdefault(('mi-exc',type(e).__name__,str(e)[:50]),[]).append((shape,ax)); continue
    npax = nd-1-ax if nd>1 else 0
    ym=np.moveaxis(y,npax,-1); mm=np.moveaxis(m,npax,-1); xm=np.moveaxis(x,npax,-1) if usex else None
    ref=np.empty(ym.shape)
    for idx in np.ndindex(ym.shape[:-1]): ref[idx]=ref1(ym[idx],mm[idx],xm[idx] if usex else None)
    ref=np.moveaxis(ref,-1,npax)
    if not np.allclose(r,ref,atol=1e-12): bad.setdefault(('mi',nd,usex),[]).append((shape,ax,const))
# skymask
for it in range(600):
    dt=str(rng.choice(['i2','i4','i8','u8'])); maxbit={'i2':14,'i4':30,'i8':62,'u8':63}[dt]
    b1,b2=rng.choice(maxbit+1,2,replace=False)
    S.maskbits={'SPPIXMASK':{'BADSKYCHI':int(b1),'REDMONSTER':int(b2),'OTHER':int((b1+1)%maxbit) if (b1+1)%maxbit not in (b1,b2) else 0}}
    nr,npx=int(rng.integers(1,4)),int(rng.integers(1,30)); ng=int(rng.integers(0,5))
    om=np.zeros((nr,npx),dtype=dt); flagged=rng.random((nr,npx))<0.1
    which=rng.integers(0,3,(nr,npx))
    om[flagged&(which==0)]|=np.array(1<<int(b1)).astype(dt); om[flagged&(which==1)]|=np.array(1<<int(b2)).astype(dt); om[flagged&(which==2)]|=np.array((1<<int(b1))|(1<<int(b2))).astype(dt)
    noise=rng.random((nr,npx))<0.2; ob=S.maskbits['SPPIXMASK']['OTHER']
    if ob not in (b1,b2): om[noise]|=np.array(1<<ob).astype(dt)
    iv=rng.uniform(0.5,2,(nr,npx))
    try: r=skymask(iv,None,om,ngrow=ng)
    except Exception as e: bad.setdefault(('sky-exc',dt,type(e).__name__),[]).append(it); continue
    exp=iv.copy()
    for k in range(nr):
        f=np.nonzero(flagged[k])[0]
        for j in range(npx):
            if len(f) and np.abs(f-j).min()<=ng: exp[k,j]=0
    if not np.array_equal(r,exp): bad.setdefault(('sky',dt,ng),[]).append(it)
# C08 knots
for it in range(500):
    nord=int(rng.integers(1,6)); x=np.sort(rng.uniform(0,10,30)); b=bspline(x,nord=nord,nbkpts=int(rng.integers(2,8)))
    t=b.breakpoints.astype('d'); b.coeff=rng.normal(size=len(t)-nord)
    xe=t[nord-1:len(t)-nord+1].copy(); v,m=b.value(xe)
    from scipy.interpolate import BSpline
    sp=BSpline(t,b.coeff,nord-1,extrapolate=False)
    right=np.nan_to_num(sp(xe)); left=np.nan_to_num(sp(np.nextafter(xe,-np.inf)))
    ok=np.isclose(v,right,atol=1e-9)|np.isclose(v,left,atol=1e-7)
    if not ok.all() or not m.all(): bad.setdefault(('knots',nord),[]).append((it,np.nonzero(~ok)[0].tolist()))
# C19 types
for val in (np.float64(5000.),np.array(5000.),5000.*u.AA,500.*u.nm,np.float32(1500.),1500.0*u.AA, 0.5*u.um):
    try:
        a=airtovac(val); v=vactoair(val)
    except Exception as e: bad.setdefault(('c19',type(val).__name__,type(e).__name__),[]).append(str(val))
for k,v in bad.items(): print(k,len(v),v[:3])
print('done')
