import numpy as np, warnings, sys
warnings.simplefilter('ignore')
from pydl.pydlutils.bspline import iterfit, bspline
from design_lib import design
from scipy.interpolate import BSpline
rng=np.random.default_rng(5)
for it in range(30):
    n=60; nord=3
    x=rng.uniform(0,10,n); y=np.sin(x)+rng.normal(0,0.05,n); iv=np.full(n,400.0); iv[rng.random(n)<0.1]=0
    s,m=iterfit(x,y,invvar=iv,nord=nord,maxiter=0,upper=5,lower=5,nbkpts=5)
    t=s.breakpoints.astype('d'); A=design(t,nord,x); w=np.sqrt(iv)
    c,*_=np.linalg.lstsq(A*w[:,None],y*w,rcond=None)
    v,_=s.value(x)
    # direct fit on sorted
    xs=np.argsort(x); b=bspline(x[xs][iv[xs]>0],nord=nord,nbkpts=5); st,yf=b.fit(x[xs],y[xs],iv[xs])
    print(it, 'iterfit-vs-ref %.2e'%np.abs(v-A@c).max(), 'direct-vs-ref %.2e'%np.abs(b.value(x)[0]-A@c).max(), 'coef diff %.2e'%np.abs(np.asarray(s.coeff)-c).max(), st, (~m).sum())
