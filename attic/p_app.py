import numpy as np, os, tempfile, warnings, traceback
warnings.simplefilter('ignore')
from pydl.pydlutils.yanny import yanny, write_ndarray_to_yanny
d=tempfile.mkdtemp()
def t(label,f):
    try:
        r=f(); print('OK  ',label,r)
    except Exception as e:
        print('FAIL',label,type(e).__name__,str(e)[:160]); traceback.print_exc(limit=-2)
a=np.zeros(2,dtype=[('a','i4'),('s','S8'),('fa','f8',(2,)),('sa','S3',(2,))]); a['a']=[1,2]; a['s']=[b'x y',b'']; a['sa']=[[b'a',b''],[b'b c',b'#']]
fn=os.path.join(d,'a.par')
par=write_ndarray_to_yanny(fn,a,structnames='tab',hdr={'k':'v'})
before=open(fn,'rb').read()
def app1():
    par.append({'tab':{'a':[3],'s':['new one'],'fa':[[1.5,2.5]],'sa':[['','q']]}, 'newkey':'new value'})
    after=open(fn,'rb').read()
    re=yanny(fn)
    return after.startswith(before), par['TAB'].tolist()==re['TAB'].tolist(), par['TAB'].tolist()[-1], [(k,par[k]) for k in par.pairs()], par==re
t('append list lower', app1)
def app2():
    b=np.zeros(1,dtype=a.dtype); b['a']=9; b['s']=b'rec'; b['fa']=[[7,8]]; b['sa']=[[b'u',b'v w']]
    par.append({'TAB':b})
    re=yanny(fn); return par['TAB'].tolist()==re['TAB'].tolist(), len(par['TAB']), par['TAB'][-1]
t('append recarray upper', app2)
def copy():
    fn2=os.path.join(d,'b.par'); par.write(fn2); re=yanny(fn2); return par.filename, re['TAB'].tolist()==par['TAB'].tolist(), [(k,re[k]) for k in re.pairs()]
t('write copy', copy)
def raw():
    pr=yanny(fn,raw=True); pr.append({'tab':{'a':[4],'s':['r'],'fa':[[0,1]],'sa':[['m','n']]}}); return pr['TAB']['a'], yanny(fn,raw=True)['TAB']==pr['TAB']
t('raw append', raw)
def rawwrite():
    pr=yanny(os.path.join(d,'b.par'),raw=True); fn3=os.path.join(d,'c.par'); pr.write(fn3); return yanny(fn3)['TAB'].tolist()==yanny(os.path.join(d,'b.par'))['TAB'].tolist()
t('raw write copy', rawwrite)
def emptyapp():
    import warnings as w
    with w.catch_warnings(record=True) as ws:
        w.simplefilter('always'); par.append({}); return [str(x.message) for x in ws]
t('append empty', emptyapp)
def missing():
    p2=yanny(fn); p2.filename=os.path.join(d,'nope.par')
    try: p2.append({'k2':'v'})
    except Exception as e: return type(e).__name__, os.path.exists(p2.filename)
t('append missing', missing)
def appkeyexisting():
    par.append({'k':'v2'}); return [(k,par[k]) for k in par.pairs()], [(k,yanny(fn)[k]) for k in yanny(fn).pairs()]
t('append existing key', appkeyexisting)
def appenum():
    fn4=os.path.join(d,'e.par'); e=np.zeros(1,dtype=[('st','S5'),('n','i2')]); e['st']=b'ON'
    p=write_ndarray_to_yanny(fn4,e,structnames='E',enums={'st':('STATE',('ON','OFF'))}); p.append({'e':{'st':['OFF'],'n':[3]}}); return p['E'].tolist(), yanny(fn4)['E'].tolist()
t('append enum', appenum)
def twotables():
    fn5=os.path.join(d,'t.par'); x=np.zeros(1,dtype=[('a','i4')]); y=np.ones(1,dtype=[('b','f4')])
    p=write_ndarray_to_yanny(fn5,(x,y),structnames=('XX','YY')); p.append({'yy':{'b':[2.5]}}); p.append({'XX':{'a':[7]},'yy':{'b':[3.5]}}); return p['XX'].tolist(),p['YY'].tolist(), open(fn5).read().splitlines()[-6:]
t('two tables', twotables)
