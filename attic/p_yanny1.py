import numpy as np, os, tempfile, warnings, io
from pydl.pydlutils.yanny import yanny, write_ndarray_to_yanny
d = tempfile.mkdtemp()
def rt(arr, name='t', **kw):
    fn = os.path.join(d, 'f%d.par' % rt.n); rt.n += 1
    par = write_ndarray_to_yanny(fn, arr, structnames=name, **kw)
    back = yanny(fn)
    return par, back, fn
rt.n = 0
# 1. basic types + extremes
dt = [('a','i2'),('b','i4'),('c','i8'),('f','f4'),('g','f8'),('s','S10'),('fa','f4',(3,)),('ia','i8',(2,)),('sa','S5',(2,))]
a = np.zeros(4, dtype=dt)
a['a'] = [-32768, 32767, 0, 1]; a['b'] = [-2**31, 2**31-1, 0, 5]; a['c'] = [-2**63, 2**63-1, 0, 7]
a['f'] = [np.nan, np.inf, -np.inf, 1e-45]; a['g'] = [5e-324, 1.7976931348623157e308, -0.0, np.nan]
a['s'] = [b'', b'a b', b'#x', b'a{in}n;r']
a['fa'] = [[1,2,3],[np.nan,np.inf,-np.inf],[3.4028235e38,1.17549435e-38,1e-45],[0.1,0.2,0.3]]
a['ia'] = [[1,2],[3,4],[-2**63,2**63-1],[0,0]]
a['sa'] = [[b'', b'x y'],[b'#', b';'],[b'a', b'b'],[b'\t', b'q']]
par, back, fn = rt(a)
print(open(fn).read())
t = back['T']
print(t.dtype)
for c in a.dtype.names:
    x, y = a[c], t[c]
    if x.dtype.kind == 'f':
        ok = (x.view('u%d'%x.dtype.itemsize if x.ndim==1 else x.dtype.str.replace('f','u')) == y.view(y.dtype.str.replace('f','u'))).all() if x.dtype==y.dtype else False
        ok2 = np.array_equal(x, y, equal_nan=True)
        print(c, 'bits', ok, 'eq', ok2, x.dtype, y.dtype)
    else:
        print(c, np.array_equal(x, y), x.dtype, y.dtype)
