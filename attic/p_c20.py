import numpy as np, os, tempfile, warnings, traceback, types
warnings.simplefilter('ignore')
import matplotlib; matplotlib.use('Agg')
import pydl.pydlspec2d.spec1d as M
from astropy import log; log.setLevel('ERROR')
from unittest import mock
d=tempfile.mkdtemp(); os.chdir(d)
par=os.path.join(d,'in.par')
def write_par(method='pca',obj='gal',extra=''):
    open(par,'w').write(f"""object {obj}
method {method}
wavemin 3600
wavemax 3700
snmax 100
niter 2
nkeep 4
minuse 1
aesthetics mean
run2d v9_9_9
run1d v8_8_8
epsilon -1.0
nonnegative 0
{extra}
typedef struct {{ int plate; int mjd; int fiberid; double zfit; }} EIGENOBJ;
EIGENOBJ 300 55100 1 0.1
EIGENOBJ 300 55100 2 0.2
EIGENOBJ 301 55300 3 0.0
""")
calls=[]
class Inject(Exception): pass
state={'k':None,'exc':RuntimeError}
def wrap(name,fn):
    def w(*a,**kw):
        calls.append(name)
        if state['k'] is not None and len(calls)==state['k']: raise state['exc']('injected at %s'%name)
        return fn(*a,**kw)
    return w
nobj,npix=3,30
def f_readspec(*a,**kw):
    return {'flux':np.ones((nobj,npix)),'invvar':np.ones((nobj,npix)),'andmask':np.zeros((nobj,npix),'i4'),'ormask':np.zeros((nobj,npix),'i4'),
            'loglam':np.tile(3.55+1e-4*np.arange(npix),(nobj,1)),'plugmap':{'FIBERID':np.array([1,2,3])}}
def f_skymask(iv,a,o,ngrow=2): return iv.copy()
def f_pre(flux,ivar,loglam=None,zfit=None,newloglam=None,aesthetics='mean',verbose=False): return (np.ones((nobj,len(newloglam))),np.ones((nobj,len(newloglam))),newloglam)
def f_pca(nf,ni,**kw): return {'flux':np.ones((4,nf.shape[1]),'f'),'eigenval':np.ones(4),'acoeff':np.ones((nobj,4)),'usemask':np.full(nf.shape[1],3),'outmask':np.ones(nf.shape,bool)}
class FakeFig:
    def savefig(self,*a,**k): calls.append('savefig'); 
class FakeAx:
    def __getattr__(self,n): return lambda *a,**k: None
class FakePlt:
    def subplots(self,*a,**k): return FakeFig(),FakeAx()
    def close(self,*a,**k): pass
patches=dict(readspec=f_readspec,skymask=f_skymask,preprocess_spectra=f_pre,pca_solve=f_pca,plot_eig=lambda *a,**k:None)
def run(k=None,exc=RuntimeError,env=None):
    calls.clear(); state['k']=k; state['exc']=exc
    for v in ('RUN2D','RUN1D'): os.environ.pop(v,None)
    if env: os.environ.update(env)
    before=dict(os.environ)
    dump=os.path.join(d,'dump%d.pkl'%np.random.randint(1e9))
    with mock.patch.multiple(M,**{n:wrap(n,f) for n,f in patches.items()}, plt=FakePlt()):
        try:
            M.template_input(par,dump); status='ok'
        except Exception as e:
            tb=traceback.extract_tb(e.__traceback__)[-1]; status='%s:%s@%s:%d'%(type(e).__name__,str(e)[:40],tb.name,tb.lineno)
    after=dict(os.environ)
    diff={k:(before.get(k),after.get(k)) for k in set(before)|set(after) if before.get(k)!=after.get(k)}
    return status,list(calls),diff
write_par()
print(run())
print(run(env={'RUN2D':'orig2','RUN1D':'orig1'}))
for k in range(1,8):
    print(k, run(k=k,env={'RUN2D':'orig2'})[0::2])
