import numpy as np, warnings, sys, traceback
warnings.simplefilter('ignore')
import pydl.pydlutils.sdss as S
S.maskbits={"SPPIXMASK":{"NOPLUG":0,"NODATA":24,"COMBINEREJ":25,"BADSKYCHI":27,"REDMONSTER":28}}
from pydl.pydlspec2d.spec2d import combine1fiber
rng=np.random.default_rng(int(sys.argv[1]) if len(sys.argv)>1 else 0)
res={}
def rec(k,info=None):
    res.setdefault(k,[]).append(info)
for it in range(int(sys.argv[2]) if len(sys.argv)>2 else 150):
    n=int(rng.integers(120,300)); c1=float(rng.choice([1e-4,2e-4])); c0=3.55+rng.uniform(0,0.1)
    ll=c0+c1*np.arange(n)
    fam=rng.integers(0,3)
    if fam==0: fl=np.full(n,rng.uniform(1,10))
    elif fam==1: fl=5+np.sin((ll-c0)/(c1*n)*rng.uniform(2,10))
    else: fl=5+np.sin((ll-c0)/(c1*n)*rng.uniform(2,10))+rng.normal(0,0.05,n)
    iv=np.full(n,1/0.05**2)*(1+0.3*np.sin(np.arange(n)/17.0))
    pat=rng.integers(0,5)
    if pat==1: iv[rng.choice(n,5,replace=False)]=0
    elif pat==2:
        a=int(rng.integers(5,n-40)); iv[a:a+int(rng.integers(2,30))]=0
    elif pat==3: iv[:int(rng.integers(1,20))]=0; iv[-int(rng.integers(1,20)):]=0
    elif pat==4:
        for _ in range(3):
            a=int(rng.integers(0,n-5)); iv[a:a+int(rng.integers(1,6))]=0
    og=rng.integers(0,5)
    if og==0: nl=ll.copy()
    elif og==1: nl=ll+c1*rng.uniform(0.05,0.95)
    elif og==2: nl=c0+c1*np.arange(-int(rng.integers(1,40)), n+int(rng.integers(1,40)))+c1*rng.uniform(0,1)
    elif og==3: nl=ll[int(rng.integers(5,30)):-int(rng.integers(5,30))]+c1*rng.uniform(0,1)
    else: nl=c0+2*c1*np.arange(n//2)+c1*rng.uniform(0,1)
    aes=str(rng.choice(['traditional','noconst','mean','nothing']))
    try:
        nf,ni=combine1fiber(ll,fl.copy(),nl,objivar=iv.copy(),aesthetics=aes)
    except Exception as e:
        tb=traceback.extract_tb(e.__traceback__)[-1]; rec(('EXC',type(e).__name__,tb.name,tb.lineno),(it,)); continue
    if not (np.isfinite(nf).all() and np.isfinite(ni).all()): rec(('nonfinite',aes),(it,pat,og)); 
    if (ni<0).any(): rec(('neg',),it)
    good=iv>0
    # zero rule
    idx=np.searchsorted(ll,nl,side='right')-1   # ll[idx] <= nl < ll[idx+1]
    between=np.zeros(len(nl),bool)
    for j,(i,x) in enumerate(zip(idx,nl)):
        if i<0 or i>=n: continue
        if x==ll[i]:
            # exactly on a pixel: lies between (i-1,i) or (i,i+1)
            between[j]= good[i] and ((i>0 and good[i-1]) or (i<n-1 and good[i+1]) or True)
        elif i<n-1:
            between[j]= good[i] and good[i+1]
    viol=(~between)&(ni!=0)
    if viol.any(): rec(('zero-rule',int(pat),int(og)),(it,np.nonzero(viol)[0][:5].tolist()))
    nz=ni>0
    interp=np.interp(nl,ll,iv)
    if nz.any():
        err=np.abs(ni[nz]-interp[nz])/interp[nz]
        if err.max()>1e-9: rec(('value-rule',int(pat),int(og)),(it,float(err.max())))
        # flux accuracy
        ref=np.interp(nl,ll,fl)
        if fam<2:
            fe=np.abs(nf[nz]-ref[nz]).max()
            rec(('fluxerr-bucket',int(fam),'%.0e'%fe))
    rec(('nzfrac','%.1f'%(nz.mean())))
for k in sorted(res,key=str): print(k,len(res[k]),res[k][:2] if k[0] not in('nzfrac','fluxerr-bucket') else '')
