import numpy as np, warnings, sys
warnings.simplefilter('ignore')
import pydl.pydlutils.mangle as M
rng=np.random.default_rng(int(sys.argv[1]))
bad={}
def unit(v): return v/np.linalg.norm(v,axis=-1,keepdims=True)
for it in range(3000):
    nc=int(rng.integers(0,7))
    if nc==0: poly=M.ManglePolygon()
    else:
        x=unit(rng.normal(size=(nc,3)))
        if nc>1 and rng.random()<0.3: x[1]=x[0]
        cm=10**rng.uniform(-6,np.log10(2),nc)*rng.choice([-1,1],nc); uc=int(rng.integers(0,1<<nc))
        poly=M.ManglePolygon(x=x,cm=cm,use_caps=uc)
    pts=unit(rng.normal(size=(30,3)))
    if nc:
        pts[:nc]=x; pts[nc:2*nc]=-x
        k=int(rng.integers(0,nc)); ang=np.arccos(1-abs(cm[k])); t=unit(np.cross(x[k],rng.normal(size=3)))
        pts[-1]=np.cos(ang*0.999)*x[k]+np.sin(ang*0.999)*t; pts[-2]=np.cos(min(ang*1.001,np.pi))*x[k]+np.sin(min(ang*1.001,np.pi))*t
    nuse=int(rng.integers(0,nc+2))
    got=M.is_in_polygon(poly,pts,ncaps=nuse)
    ra=np.degrees(np.arctan2(pts[:,1],pts[:,0])); dec=np.degrees(np.arcsin(np.clip(pts[:,2],-1,1)))
    got2=M.is_in_polygon(poly,np.stack([ra,dec],1),ncaps=nuse)
    lim=nc if nuse<=0 else min(nuse,nc)
    must=np.ones(30,bool); may=np.ones(30,bool)
    for i in range(lim):
        if not (uc>>i)&1: continue
        q=1-pts@x[i]-abs(cm[i]); band=np.abs(q)<1e-9*max(abs(cm[i]),1e-3)+1e-13
        inside=q<=0
        if cm[i]<0: inside=~inside
        must&=inside|band; may&=inside|band
        mustx=inside&~band
        must=must&(inside|band)
    # strict: points not in any band
    exp=np.ones(30,bool); amb=np.zeros(30,bool)
    for i in range(lim):
        if not (uc>>i)&1: continue
        q=1-pts@x[i]-abs(cm[i]); band=np.abs(q)<1e-9*max(abs(cm[i]),1e-3)+1e-13
        inside=(q<=0) if cm[i]>=0 else (q>0)
        exp&=inside; amb|=band
    ok=(got==exp)|amb
    if not ok.all(): bad.setdefault(('cart',),[]).append((it,np.nonzero(~ok)[0].tolist()))
    amb2=amb.copy()
    # radec conversion loses ~1e-16: widen
    ok2=(got2==exp)|amb
    if not ok2.all():
        # recheck with band 1e-12 abs
        bad.setdefault(('radec',),[]).append((it,np.nonzero(~ok2)[0].tolist()))
    # set_use_caps
    if nc:
        il=rng.integers(0,nc,size=int(rng.integers(0,nc+2))).tolist()
        p2=poly.copy(); tol=1e-10
        try: r=M.set_use_caps(p2,il)
        except Exception as e: bad.setdefault(('suc-exc',type(e).__name__),[]).append(il); continue
        e=0
        for i in il: e|=1<<i
        for i in range(nc):
            if (e>>i)&1:
                for j in range(i+1,nc):
                    if (e>>j)&1 and ((x[i]-x[j])**2).sum()<tol**2 and (abs(cm[i]-cm[j])<tol or abs(cm[i]+cm[j])<tol): e-=1<<j
        if r!=e: bad.setdefault(('suc',),[]).append((il,bin(r),bin(e)))
for k,v in bad.items(): print(k,len(v),v[:3])
print('done')
