import numpy as np, warnings, sys
warnings.simplefilter('ignore')
from pydl.pydlutils.bspline import bspline, iterfit, cholesky_band, cholesky_solve
from scipy.interpolate import BSpline
rng=np.random.default_rng(int(sys.argv[1]) if len(sys.argv)>1 else 0)
fails={}
def F(k,v): fails.setdefault(k,[]).append(v)
for it in range(400):
    n=rng.integers(5,80); nord=int(rng.integers(1,7))
    x=np.sort(rng.uniform(0,10,n)) if rng.random()<0.7 else np.sort(rng.normal(5,1,n))
    opt=rng.integers(0,5)
    try:
        if opt==0: kw=dict(bkpt=np.sort(rng.uniform(x.min(),x.max(),rng.integers(2,10))))
        elif opt==1: kw=dict(placed=np.sort(rng.uniform(x.min()-1,x.max()+1,rng.integers(0,12))))
        elif opt==2: kw=dict(bkspace=float(10**rng.uniform(-1,1.2)))
        elif opt==3: kw=dict(nbkpts=int(rng.integers(0,15)))
        else: kw=dict(everyn=int(rng.integers(1,n+3)))
        b=bspline(x,nord=nord,**kw)
    except Exception as e:
        F(('ctor',opt,type(e).__name__,str(e)[:50]),(it,n,kw if opt!=0 and opt!=1 else None)); continue
    t=b.breakpoints
    if (np.diff(t)<0).any(): F(('nonmono',opt),it)
    if len(t) < 2*nord: F(('short',opt),it); continue
    nb=len(t)-2*(nord-1)
    lo,hi=t[nord-1],t[len(t)-nord]
    if lo>x.min()+1e-6*abs(x.min())+1e-6 or hi<x.max()-1e-6*abs(x.max())-1e-6: F(('cover',opt),(it,lo,hi,x.min(),x.max()))
    nc=len(t)-nord
    b.coeff=rng.normal(0,1,nc)
    xe=rng.uniform(lo-0.5,hi+0.5,50)
    try:
        y,m=b.value(xe)
    except Exception as e:
        F(('value',opt,nord,type(e).__name__,str(e)[:50]),it); continue
    ins=(xe>=lo)&(xe<=hi)
    if (m!=ins).any(): F(('mask',opt),it)
    if (np.diff(t)>0).all() or True:
        try:
            ref=BSpline(t.astype('d'),b.coeff,nord-1,extrapolate=False)(xe[ins])
            if not np.allclose(y[ins],ref,rtol=1e-6,atol=1e-8,equal_nan=False): F(('val-mismatch',opt,nord),(it,np.abs(y[ins]-ref).max()))
        except Exception as e: F(('ref',str(e)[:40]),it)
    # partition of unity
    xs=np.sort(xe[ins])
    if len(xs):
        bf=b.bsplvn(xs,b.intrv(xs))
        if (bf< -1e-12).any() or not np.allclose(bf.sum(1),1,atol=1e-9): F(('pou',opt,nord),it)
for k,v in fails.items(): print(k,len(v),v[:2])
print('done')
