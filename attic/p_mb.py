import numpy as np, warnings, tempfile, os
warnings.simplefilter('ignore')
import pydl.pydlutils.sdss as S
txt = """typedef struct {
 char flag[20]; short bit; char label[30]; char description[100];
} maskbits;
typedef struct { char flag[20]; char alias[20]; char description[100]; } maskalias;
maskbits G1 0 A "a"
maskbits G1 63 TOP "top"
maskbits G1 31 MID "mid"
maskbits G1 32 MID2 "mid2"
maskbits G2 5 A "other a"
maskalias G1 AL "alias"
"""
fn = os.path.join(tempfile.mkdtemp(), 'm.par'); open(fn,'w').write(txt)
S.maskbits = S.set_maskbits(maskbits_file=fn)
print(S.maskbits)
def t(label, f):
    try: print('OK  ', label, repr(f()))
    except Exception as e: print('FAIL', label, type(e).__name__, e)
t('val top', lambda: S.sdss_flagval('g1', ['top','a','Mid']))
t('name', lambda: S.sdss_flagname('G1', 2**63 + 1 + 2**31 + 2**40))
t('name np', lambda: S.sdss_flagname('al', np.uint64(2**63 + 2**32)))
t('name 0 unknown', lambda: S.sdss_flagname('nogroup', 0))
t('name 1 unknown', lambda: S.sdss_flagname('nogroup', 1))
t('name undefined bits only', lambda: S.sdss_flagname('G2', 2**7))
t('exist', lambda: S.sdss_flagexist('g9', ['a','b'], flagexist=True, whichexist=True))
t('exist2', lambda: S.sdss_flagexist('al', ['a','b'], flagexist=True, whichexist=True))
t('val dup labels', lambda: S.sdss_flagval('g1', ['a','a']))
t('val all', lambda: S.sdss_flagval('g1', ['top','a','Mid','mid2']) == np.uint64(2**63+1+2**31+2**32))
