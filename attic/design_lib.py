import numpy as np
from scipy.interpolate import BSpline
def design(t,nord,x):
    nc=len(t)-nord; A=np.zeros((len(x),nc))
    for j in range(nc):
        c=np.zeros(nc); c[j]=1
        A[:,j]=np.nan_to_num(BSpline(t,c,nord-1,extrapolate=False)(x))
    # close right end
    last=x>=t[len(t)-nord]
    if last.any():
        xe=np.nextafter(t[len(t)-nord],-np.inf)
        for j in range(nc):
            c=np.zeros(nc); c[j]=1; A[last,j]=BSpline(t,c,nord-1,extrapolate=False)(xe)
    return A
