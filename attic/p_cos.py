import numpy as np, warnings
warnings.simplefilter('ignore')
from pydl.pydlutils.spheregroup import chunks
rng=np.random.default_rng(5)
cnt=0
for it in range(20000):
    n=5; 
    dec=rng.uniform(-89.9,89.9,n); ra=rng.uniform(0,360,n); ms=10**rng.uniform(-1,1.8)
    try: chunks(ra,dec,ms)
    except Exception as e:
        cnt+=1
        if cnt<4:
            decMin=dec.min(); decMax=dec.max(); nDec=3+int(np.floor((decMax-decMin)/ms)); decRange=ms*nDec
            dm=decMin-0.5*(decRange-decMax+decMin); dM=dm+decRange
            if dm < -90+3*ms: dm=-90.0
            if dM > 90-3*ms: dM=90.0
            b = dm + ((dM-dm)*np.arange(nDec+1,dtype='d'))/float(nDec)
            print(e, repr(b[0]), repr(b[-1]), ms, dm, dM, np.cos(np.deg2rad(b[-1])), np.cos(np.deg2rad(b[0])))
print(cnt)
