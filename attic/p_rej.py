import numpy as np, warnings, sys
warnings.simplefilter('ignore')
from pydl.pydlutils.math import djs_reject
rng=np.random.default_rng(int(sys.argv[1]) if len(sys.argv)>1 else 0)
bad={}
def grow(m,k):
    out=m.copy()
    for s in range(1,k+1):
        out[s:]|=m[:-s]; out[:-s]|=m[s:]
    return out
N=3000
for it in range(N):
    n=int(rng.integers(3,40)); model=rng.normal(size=n)
    usesig=rng.random()<0.5
    sig=rng.uniform(0.5,2,n); iv=1/sig**2
    if not usesig: iv[rng.random(n)<0.15]=0
    lower=float(rng.uniform(1,4)) if rng.random()<0.7 else None
    upper=float(rng.uniform(1,4)) if rng.random()<0.7 else None
    maxdev=float(rng.uniform(1,5)) if rng.random()<0.4 else None
    # residual in sigma units, away from thresholds
    r=rng.choice([0,0,0.5,-0.5,1,-1],n)*rng.uniform(0.1,0.9,n)
    out=rng.random(n)<0.2
    r[out]=rng.choice([-1,1],out.sum())*rng.uniform(4.5,9,out.sum())
    data=model+r*sig
    inmask=(rng.random(n)>0.15) if rng.random()<0.6 else None
    prev=(rng.random(n)>0.15) if rng.random()<0.6 else None
    sticky=bool(rng.random()<0.5); g=int(rng.integers(0,4))
    kw=dict(lower=lower,upper=upper,maxdev=maxdev,sticky=sticky,grow=g)
    if usesig: kw['sigma']=sig
    else: kw['invvar']=iv
    try:
        om,qd=djs_reject(data,model,outmask=None if prev is None else prev.copy(),inmask=None if inmask is None else inmask.copy(),**kw)
    except Exception as e:
        bad.setdefault(('EXC',type(e).__name__,str(e)[:40]),[]).append(it); continue
    diff=data-model
    s_eff = sig if usesig else None
    BAD=np.zeros(n,bool)
    if lower is not None: BAD|= (diff < -lower*sig) if usesig else (diff*np.sqrt(iv) < -lower)
    if upper is not None: BAD|= (diff > upper*sig) if usesig else (diff*np.sqrt(iv) > upper)
    if maxdev is not None: BAD|= np.abs(diff)>maxdev
    excl=np.zeros(n,bool)
    if inmask is not None: excl|=~inmask
    if sticky and prev is not None: excl|=~prev
    MUST=excl|BAD|grow(BAD&~excl,g)
    MAY=MUST|grow(excl|BAD,g)
    rej=~om
    if not (MUST<=rej).all() if False else (MUST&~rej).any(): bad.setdefault(('under',g),[]).append(it)
    if (rej&~MAY).any(): bad.setdefault(('over',g),[]).append(it)
    prev_eff = prev if prev is not None else np.ones(n,bool)
    if qd != bool((om==prev_eff).all()): bad.setdefault(('qdone',),[]).append(it)
for k,v in bad.items(): print(k,len(v),v[:3])
print('done')
