import numpy as np, warnings, sys, traceback, os
warnings.simplefilter('ignore')
def t(label,f):
    try:
        r=f(); print('OK  ',label,r)
    except Exception as e:
        print('FAIL',label,type(e).__name__,str(e)[:160]); traceback.print_exc(limit=-2)
rng=np.random.default_rng(4)
import astropy.units as u, astropy.coordinates as ac
from pydl.pydlutils.coord import SDSSMuNu, stripe_to_incl, stripe_to_eta
def rt(stripe):
    ra=rng.uniform(0,360,200); dec=np.rad2deg(np.arcsin(rng.uniform(-1,1,200)))
    c=ac.SkyCoord(ra=ra*u.deg,dec=dec*u.deg,frame='icrs')
    m=c.transform_to(SDSSMuNu(stripe=stripe)); b=m.transform_to(ac.ICRS())
    sep=c.separation(ac.SkyCoord(b)).arcsec.max()
    # isometry
    s1=c[:100].separation(c[100:]).deg; mm=ac.SkyCoord(m); s2=mm[:100].separation(mm[100:]).deg
    # nu=0 circle
    mu=rng.uniform(0,360,50); g=SDSSMuNu(mu=mu*u.deg,nu=np.zeros(50)*u.deg,stripe=stripe).transform_to(ac.ICRS())
    incl=np.deg2rad(stripe_to_incl(stripe)); node=np.deg2rad(95.0)
    nrm=np.array([np.sin(incl)*np.sin(node), -np.sin(incl)*np.cos(node), np.cos(incl)])
    xyz=g.cartesian.xyz.value.T
    return sep, np.abs(s1-s2).max(), np.abs(xyz@nrm).max()
for s in (0,10,37,46,47,82,86,90):
    t('stripe %d'%s, lambda: rt(s))
from pydl.photoop.sdssio import sdssflux2ab
f=rng.uniform(1,10,(4,5))
t('flux2ab', lambda: (np.abs(-2.5*np.log10(sdssflux2ab(f)/f) - (sdssflux2ab(np.zeros((4,5)),magnitude=True))).max(), np.abs(sdssflux2ab(f,ivar=True)*(sdssflux2ab(f)/f)**2/f-1).max()))
from pydl.pydlspec2d.spec2d import filter_thru
def ft():
    nT,nx=3,400
    lam=np.tile(10**(3.58+1e-3*np.arange(nx)),(nT,1))  # 3800..9500
    fl=rng.uniform(1,2,(nT,nx)); r1=filter_thru(fl,waveimg=lam); r2=filter_thru(3*fl+2,waveimg=lam); rc=filter_thru(np.full((nT,nx),7.0),waveimg=lam)
    mk=np.zeros((nT,nx),dtype=bool); mk[:,100:110]=True; fl2=fl.copy(); fl2[mk]=1e6
    rm1=filter_thru(fl,waveimg=lam,mask=mk); rm2=filter_thru(fl2,waveimg=lam,mask=mk)
    return np.abs(r2-(3*r1+2)).max(), rc, np.abs(rm1-rm2).max(), (r1>=fl.min(1)[:,None]).all() and (r1<=fl.max(1)[:,None]).all()
t('filter_thru', ft)
def ft_noover():
    nT,nx=2,100; lam=np.tile(10**(3.9+1e-4*np.arange(nx)),(nT,1)); return filter_thru(np.full((nT,nx),7.0),waveimg=lam)
t('filter_thru partial overlap', ft_noover)
def ft_toair():
    nT,nx=2,400; lam=np.tile(10**(3.58+1e-3*np.arange(nx)),(nT,1)); return filter_thru(np.full((nT,nx),7.0),waveimg=lam,toair=True)
t('filter_thru toair', ft_toair)
def ft_wset():
    from pydl.pydlutils.trace import xy2traceset
    nT,nx=2,400; xp=np.tile(np.arange(nx,dtype='d'),(nT,1)); ll=3.58+1e-3*xp
    ws=xy2traceset(xp,ll,ncoeff=2); return filter_thru(np.full((nT,nx),7.0),wset=ws)
t('filter_thru wset', ft_wset)
