import numpy as np, sys, warnings
from pydl.pydlutils.spheregroup import spherematch, spheregroup
warnings.simplefilter('ignore')
def vec(ra, dec):
    r=np.deg2rad(ra); d=np.deg2rad(dec)
    return np.stack([np.cos(d)*np.cos(r), np.cos(d)*np.sin(r), np.sin(d)],-1)
def sepmat(ra1,dec1,ra2,dec2):
    a=vec(ra1,dec1); b=vec(ra2,dec2)
    cr = np.linalg.norm(np.cross(a[:,None,:], b[None,:,:]),axis=-1); dt = (a[:,None,:]*b[None,:,:]).sum(-1)
    return np.rad2deg(np.arctan2(cr, dt))
rng = np.random.default_rng(int(sys.argv[1]) if len(sys.argv)>1 else 0)
fails = {}
N=int(sys.argv[2]) if len(sys.argv)>2 else 300
for it in range(N):
    kind = rng.integers(0,5)
    n1 = rng.integers(2,25); n2 = rng.integers(1,25)
    ml = 10**rng.uniform(-3.5, 1.2)
    if kind==0:   # all-sky
        ml = 10**rng.uniform(-0.3,1.2)
        ra1=rng.uniform(0,360,n1); dec1=np.rad2deg(np.arcsin(rng.uniform(-1,1,n1)))
        ra2=rng.uniform(0,360,n2); dec2=np.rad2deg(np.arcsin(rng.uniform(-1,1,n2)))
    else:
        if kind==1: c=(rng.uniform(0,360), rng.uniform(-80,80))
        elif kind==2: c=(rng.choice([0.0,359.9,0.1]), rng.uniform(-60,60))  # seam
        elif kind==3: c=(rng.uniform(0,360), rng.choice([-1,1])*rng.uniform(85,89.9))  # polar
        else: c=(rng.uniform(0,360), rng.uniform(-30,30))
        sc = ml*rng.uniform(0.3,5)
        ra1=(c[0]+rng.normal(0,sc,n1)/max(np.cos(np.deg2rad(c[1])),0.01))%360; dec1=np.clip(c[1]+rng.normal(0,sc,n1),-89.99,89.99)
        ra2=(c[0]+rng.normal(0,sc,n2)/max(np.cos(np.deg2rad(c[1])),0.01))%360; dec2=np.clip(c[1]+rng.normal(0,sc,n2),-89.99,89.99)
    cs = None if rng.random()<0.5 else ml*rng.uniform(4,20)
    try:
        m1,m2,d = spherematch(ra1,dec1,ra2,dec2,ml,chunksize=cs,maxmatch=0)
    except Exception as e:
        fails.setdefault(('exc',type(e).__name__,str(e)[:60], kind),[]).append(it); continue
    S = sepmat(ra1,dec1,ra2,dec2)
    want = set(zip(*np.nonzero(S < ml*(1-1e-9)))); maybe = set(zip(*np.nonzero(S < ml*(1+1e-9))))
    got = list(zip(m1.tolist(), m2.tolist()))
    gs=set(got)
    if len(gs)!=len(got): fails.setdefault(('dup',kind),[]).append(it)
    if not want<=gs: fails.setdefault(('missing',kind),[]).append((it, len(want-gs), ml, cs))
    if not gs<=maybe: fails.setdefault(('extra',kind),[]).append(it)
    if len(d)>1 and (np.diff(d)<0).any(): fails.setdefault(('order',kind),[]).append(it)
for k,v in fails.items(): print(k, len(v), v[:3])
print('done')
