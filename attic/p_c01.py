import numpy as np, io, sys, warnings, traceback, os, tempfile, shutil, re
warnings.simplefilter('ignore')
from hypothesis import given, settings, strategies as st, HealthCheck, seed
from pydl.pydlutils.yanny import yanny, write_ndarray_to_yanny, write_table_yanny, read_table_yanny
from astropy.table import Table
ident = st.from_regex(r'[A-Za-z][A-Za-z0-9_]{0,6}', fullmatch=True)
ALPHA='abcXYZ019 \t#;{}\',.:=\\-_'
def okstr(s,arr,last):
    if s.startswith('{'): return False
    if arr and '}' in s: return False
    if re.search(r'\{\s*\{\s*\}\s*\}',s): return False
    if s.endswith('\\'): return False
    return True
@st.composite
def table(draw):
    nc=draw(st.integers(1,5)); cn=draw(st.lists(ident,min_size=nc,max_size=nc,unique=True))
    nr=draw(st.sampled_from([0,1,1,2,3,5]))
    dt=[]; cols={}
    enums={}
    for c in cn:
        base=draw(st.sampled_from(['i2','i4','i8','f4','f8','S','E']))
        arr=draw(st.sampled_from([0,0,0,1,2,4]))
        if base=='E': arr=0
        if base in('S','E'): w=draw(st.integers(1,8)); b='S%d'%w
        else: b=base
        dt.append((c,b,(arr,)) if arr else (c,b))
        def one():
            if base=='i2': return draw(st.integers(-2**15,2**15-1))
            if base=='i4': return draw(st.integers(-2**31,2**31-1))
            if base=='i8': return draw(st.integers(-2**63,2**63-1))
            if base=='f4': return draw(st.floats(width=32))
            if base=='f8': return draw(st.floats())
            if base=='S': return draw(st.text(alphabet=ALPHA,max_size=w).filter(lambda s: okstr(s,arr>0,False))).encode()
        if base=='E':
            labels=draw(st.lists(st.from_regex(r'[A-Z][A-Z0-9_]{0,%d}'%(w-1),fullmatch=True),min_size=1,max_size=3,unique=True))
            enums[c]=(draw(ident),labels)
            cols[c]=[draw(st.sampled_from(labels)).encode() for _ in range(nr)]
        else:
            cols[c]=[[one() for _ in range(arr)] if arr else one() for _ in range(nr)]
    a=np.zeros(nr,dtype=dt)
    for c in cn:
        if nr: a[c]=cols[c]
    return a,enums
fails={}; stats={'n':0}
d=tempfile.mkdtemp()
@seed(int(sys.argv[1]))
@settings(max_examples=int(sys.argv[2]),database=None,deadline=None,suppress_health_check=list(HealthCheck))
@given(st.data())
def prop(data):
    nt=data.draw(st.integers(1,3))
    names=data.draw(st.lists(ident,min_size=nt,max_size=nt,unique_by=lambda s:s.upper()))
    tabs=[data.draw(table()) for _ in names]
    enums={}
    # enum dict is keyed by column name across all tables: avoid clashes
    for a,e in tabs:
        for k,v in e.items():
            if k in enums: return
            enums[k]=v
    # a column named like an enum col in another table but non-string -> skip
    for a,e in tabs:
        for c in a.dtype.names:
            if c in enums and c not in e: return
    if len({v[0].upper() for v in enums.values()})!=len(enums): return
    hk=data.draw(st.lists(ident.filter(lambda s:s.upper() not in {n.upper() for n in names}),max_size=3,unique_by=lambda s:s.upper()))
    hdr={k:data.draw(st.one_of(st.integers(-10**6,10**6),st.floats(allow_nan=False,allow_infinity=False),st.text(alphabet='abcXYZ019 \t;{}\',.:=-_',max_size=8).map(str.strip).filter(lambda v: not re.search(r'\{\s*\{\s*\}\s*\}',v)))) for k in hk}
    stats['n']+=1
    fn=os.path.join(d,'f%d.par'%stats['n'])
    try:
        par=write_ndarray_to_yanny(fn,tuple(a for a,e in tabs),structnames=tuple(names),enums=enums or None,hdr=hdr or None)
        back=yanny(fn)
    except Exception as e:
        tb=traceback.extract_tb(e.__traceback__)[-1]; key=('exc',type(e).__name__,tb.name,tb.lineno)
        if key not in fails: fails[key]=(str(e)[:100],[ (n,a.dtype,a.tolist()) for n,(a,_) in zip(names,tabs)],enums,hdr)
        return
    finally:
        if os.path.exists(fn): txt=open(fn).read(); os.remove(fn)
    try:
        for obj,label in ((par,'par'),(back,'back')):
            assert set(obj.tables())=={n.upper() for n in names},(label,'tables')
            for n,(a,e) in zip(names,tabs):
                r=obj[n.upper()]
                assert list(r.dtype.names)==list(a.dtype.names),(label,'colorder')
                assert len(r)==len(a),(label,'nrows',len(r),len(a))
                for c in a.dtype.names:
                    x=a[c]; y=r[c]
                    if x.dtype.kind=='S':
                        assert y.dtype.kind=='S' and (c in e or y.dtype.itemsize==x.dtype.itemsize),(label,'strtype',c,y.dtype,x.dtype)
                        assert x.shape==y.shape and (x==y).all(),(label,'str',c,x.tolist(),y.tolist())
                    elif x.dtype.kind=='f':
                        assert y.dtype==x.dtype and x.shape==y.shape,(label,'ftype',c,y.dtype,y.shape)
                        u='u%d'%x.dtype.itemsize
                        same=(x.view(u)==y.view(u))|(np.isnan(x)&np.isnan(y))
                        assert same.all(),(label,'float',c,x.tolist(),y.tolist())
                    else:
                        assert y.dtype==x.dtype and x.shape==y.shape and (x==y).all(),(label,'int',c)
            assert {k:obj[k] for k in obj.pairs()}=={k:'{}'.format(v) for k,v in hdr.items()},(label,'pairs',{k:obj[k] for k in obj.pairs()},hdr)
    except AssertionError as e:
        key=('mismatch',)+tuple(str(z) for z in e.args[0][:2])
        if key not in fails: fails[key]=(str(e.args[0])[:300],txt[-500:])
prop()
print('examples',stats['n'])
for k,v in fails.items(): print('=====',k); [print('   ',str(z)[:700]) for z in v]
shutil.rmtree(d)
