import numpy as np, os, tempfile, warnings, traceback
warnings.simplefilter('ignore')
from astropy.io import fits
from astropy import log; log.setLevel('ERROR')
from pydl.pydlspec2d.spec1d import readspec
top=tempfile.mkdtemp(); run2d='v5_7_0'; run1d='v5_7_0'
def enc(plate,mjd,hdu,nf,npix):
    f=np.arange(nf)[:,None]; p=np.arange(npix)[None,:]
    return (plate*1e6 + (mjd-55000)*1e4*0 + hdu*1e5 + (f+1)*100 + p*0.01 + (mjd%100)*1e7).astype('f4')
def mk(plate,mjd,nf,npix,c0,c1):
    d=os.path.join(top,run2d,'%04d'%plate); os.makedirs(os.path.join(d,run1d),exist_ok=True)
    h=fits.Header(); h['COEFF0']=c0; h['COEFF1']=c1
    hdus=[fits.PrimaryHDU(enc(plate,mjd,0,nf,npix),header=h)]
    hdus.append(fits.ImageHDU(enc(plate,mjd,1,nf,npix)))
    hdus.append(fits.ImageHDU((np.arange(nf)[:,None]*1000+np.arange(npix)[None,:]+plate).astype('i4')))
    hdus.append(fits.ImageHDU((np.arange(nf)[:,None]*1000+np.arange(npix)[None,:]+mjd).astype('i4')))
    hdus.append(fits.ImageHDU(enc(plate,mjd,4,nf,npix)))
    pm=np.zeros(nf,dtype=[('FIBERID','i4'),('RA','f8'),('DEC','f8'),('PLATE','i4'),('MJD','i4')]); pm['FIBERID']=np.arange(nf)+1; pm['PLATE']=plate; pm['MJD']=mjd; pm['RA']=plate+np.arange(nf)/1000.
    hdus.append(fits.BinTableHDU(pm))
    hdus.append(fits.ImageHDU(enc(plate,mjd,6,nf,npix)))
    fits.HDUList(hdus).writeto(os.path.join(d,'spPlate-%04d-%05d.fits'%(plate,mjd)))
    z=np.zeros(nf,dtype=[('FIBERID','i4'),('Z','f8'),('PLATE','i4'),('MJD','i4')]); z['FIBERID']=np.arange(nf)+1; z['Z']=plate*0.001+np.arange(nf)*1e-5; z['PLATE']=plate; z['MJD']=mjd
    fits.HDUList([fits.PrimaryHDU(),fits.BinTableHDU(z)]).writeto(os.path.join(d,run1d,'spZbest-%04d-%05d.fits'%(plate,mjd)))
mk(300,55100,6,20,3.58,1e-4); mk(300,55200,6,20,3.58,1e-4); mk(301,55300,8,25,3.57,1e-4); mk(77,56000,5,15,3.6,2e-4)
os.environ['BOSS_SPECTRO_REDUX']=top; os.environ['RUN2D']=run2d; os.environ['RUN1D']=run1d; os.environ['SPECTRO_MATCH']=os.path.join(top,'nomatch'); os.environ['PHOTO_RESOLVE']='/x/resolve'
def t(label,f):
    try:
        r=f(); print('OK  ',label,r)
    except Exception as e:
        print('FAIL',label,type(e).__name__,str(e)[:160]); traceback.print_exc(limit=-2)
def go():
    plate=np.array([301,300,77,300,301,300]); mjd=np.array([55300,55200,56000,55100,55300,55200]); fiber=np.array([8,1,5,6,1,1])
    r=readspec(plate,mjd=mjd,fiber=fiber)
    return r['flux'].shape, r['plugmap']['PLATE'], r['plugmap']['MJD'], r['plugmap']['FIBERID'], r['zans']['Z'], r['flux'][:,0], r['loglam'][:,[0,14,15,24]], r['andmask'][:,1]
t('multi', go)
t('scalar', lambda: readspec(300,mjd=55100,fiber=3)['flux'].shape)
t('scalar plate vec fiber', lambda: readspec(300,mjd=55100,fiber=[3,1,2])['plugmap']['FIBERID'])
t('latest mjd', lambda: readspec(np.array([300,301]),fiber=np.array([2,3]))['plugmap']['MJD'])
t('all fibers', lambda: readspec(300,mjd=55100)['flux'].shape)
