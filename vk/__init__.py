"""vk -- the verification kit shared by every property module under props/.

A property module exposes

    PROPERTY      'C06'
    LEVEL         'exploration' | 'fault_enumeration'
    RULE          text: how cases are generated and what makes one non-trivial
    ASSUMPTIONS   list of strings
    SUBCHECKS     list of SubCheck
    setup()       optional per-process initialisation (after pydl is importable)

and every SubCheck body takes ONE json-serialisable "case" (dicts / lists /
str / int / float / bool / None) so that a failing case can be written to a
replay file and executed again without Hypothesis.
"""
from .core import (SubCheck, Violation, HarnessError, call, judge, check,  # noqa
                   exc_site, note_label, note_count, f2j, j2f, abbrev)
