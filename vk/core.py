"""Core vocabulary used inside sub-check bodies."""
import contextlib
import math
import os
import traceback


class Violation(Exception):
    """The oracle disagreed with pydl (or pydl raised on an in-domain input).

    kind   -- short stable string; (subcheck, kind) is the bucket key used by
              known_findings.txt.
    detail -- free text / small json-able object for the replay file.
    """

    def __init__(self, kind, detail=None):
        Exception.__init__(self, kind, detail)
        self.kind = kind
        self.detail = detail

    def __str__(self):
        return '%s: %s' % (self.kind, abbrev(self.detail, 600))


class HarnessError(Exception):
    """Something went wrong in the harness itself: exit 2, never a VIOLATION."""


class SubCheck(object):
    """One independently generated and independently reported check.

    kind = 'hypothesis' : strategy() -> hypothesis strategy producing cases
           'exhaustive' : cases(tier) -> iterable of cases (seed independent)
           'stateful'   : machine(record) -> RuleBasedStateMachine subclass whose
                          rules call record(op) *before* applying op; the case is
                          {'ops': [...]} and body(case) re-applies the ops.
    body(case)          : returns None or raises Violation
    classify(case)      : iterable of labels (for the generated-distribution
                          histogram); may use information body stored in
                          case['_obs'] (removed before hashing)
    nontrivial(case, labels) : bool
    quick / thorough    : example budget (hypothesis max_examples; for stateful,
                          number of machines)
    shards              : (quick, thorough) number of processes the budget is
                          split over
    """

    def __init__(self, name, body, kind='hypothesis', strategy=None, cases=None,
                 machine=None, classify=None, nontrivial=None, quick=200,
                 thorough=5000, shards=(1, 16), steps=(20, 40), floor=0.02,
                 doc=''):
        self.name = name
        self.body = body
        self.kind = kind
        self.strategy = strategy
        self.cases = cases
        self.machine = machine
        self.classify = classify or (lambda case: ())
        self.nontrivial = nontrivial or (lambda case, labels: True)
        self.quick = quick
        self.thorough = thorough
        self.shards = shards
        self.steps = steps
        self.floor = floor
        self.doc = doc


def _repo_root():
    return os.path.realpath(os.environ.get('VERIF_REPO', '/repo'))


def exc_site(exc):
    """'file.py:function' of the innermost traceback frame inside pydl."""
    root = os.path.join(_repo_root(), 'pydl')
    site = None
    for fr in traceback.extract_tb(exc.__traceback__):
        fn = os.path.realpath(fr.filename)
        if fn.startswith(root) and os.sep + 'tests' + os.sep not in fn:
            site = '%s:%s' % (os.path.basename(fn), fr.name)
    return site


def call(fn, *args, **kwargs):
    """Call into pydl.  Exceptions listed in allowed= propagate unchanged (the
    body decides whether they are the refusal the property demands); anything
    else is the code under test raising on an in-domain input -> Violation."""
    allowed = kwargs.pop('allowed', ())
    what = kwargs.pop('what', None) or getattr(fn, '__name__', 'call')
    try:
        return fn(*args, **kwargs)
    except Violation:
        raise
    except allowed:
        raise
    except (KeyboardInterrupt, SystemExit, MemoryError):
        raise
    except Exception as e:  # noqa
        site = exc_site(e)
        if site is None:
            # raised outside pydl/ and not passing through it: harness mistake
            raise
        raise Violation('raises:%s:%s@%s' % (what, type(e).__name__, site),
                        '%s: %s' % (type(e).__name__, str(e)[:300]))


@contextlib.contextmanager
def judge(what):
    """Zone in which pydl's *output* is inspected.  A malformed output (wrong
    shape, wrong type ...) makes the comparison code itself raise; that is a
    violation of the property, not a harness error."""
    try:
        yield
    except Violation:
        raise
    except (KeyboardInterrupt, SystemExit, MemoryError):
        raise
    except Exception as e:  # noqa
        raise Violation('malformed:%s:%s' % (what, type(e).__name__),
                        '%s: %s' % (type(e).__name__, str(e)[:300]))


def check(cond, kind, detail=None):
    if not cond:
        if callable(detail):
            detail = detail()
        raise Violation(kind, detail)


_labels = []


def note_label(label):
    """Record a label for the current case from inside body (observed facts
    that classify() cannot know from the input alone)."""
    _labels.append(label)


_counts = {}


def note_count(name, n=1):
    """Accumulate a per-case counter (e.g. number of fault-injected executions inside one scenario)."""
    _counts[name] = _counts.get(name, 0) + int(n)


def take_counts():
    out = dict(_counts)
    _counts.clear()
    return out


def take_labels():
    out = list(_labels)
    del _labels[:]
    return out


def f2j(x):
    """float -> json-safe exact representation (NaN/inf as strings)."""
    x = float(x)
    if math.isnan(x):
        return 'nan'
    if math.isinf(x):
        return 'inf' if x > 0 else '-inf'
    return x


def j2f(x):
    return float(x)


def abbrev(obj, limit=400):
    s = obj if isinstance(obj, str) else repr(obj)
    if len(s) > limit:
        s = s[:limit] + '...[%d chars]' % len(s)
    return s
