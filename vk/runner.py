"""Runner: tasks, sharding, Hypothesis driving, replay, evidence, known findings.

Exit codes:  0 property held on everything explored (KNOWN-FINDING lines allowed)
             1 violation (a line "VIOLATION property=<id> replay=<path>" is printed)
             2 harness problem (broken check / vacuous generator) -- never a violation
"""
import argparse
import collections
import contextlib
import fnmatch
import glob
import hashlib
import importlib
import json
import os
import shutil
import sys
import tempfile
import time
import traceback
import warnings

HERE = os.path.dirname(os.path.dirname(os.path.abspath(__file__)))
REPO = os.path.realpath(os.environ.get('VERIF_REPO', '/repo'))


def _prepare_path():
    """The tree under test is whatever is in VERIF_REPO (default /repo) now."""
    if HERE not in sys.path:
        sys.path.insert(0, HERE)
    while REPO in sys.path:
        sys.path.remove(REPO)
    sys.path.insert(0, REPO)
    deps = os.path.join(HERE, '.deps')
    if os.path.isdir(deps) and deps not in sys.path:
        sys.path.append(deps)


_prepare_path()

from vk.core import Violation, HarnessError, take_labels, take_counts, abbrev  # noqa: E402


# --------------------------------------------------------------------------
# property modules
# --------------------------------------------------------------------------
def load_property(pid):
    pid = pid.upper()
    hits = glob.glob(os.path.join(HERE, 'props', pid.lower() + '_*.py'))
    if len(hits) != 1:
        raise HarnessError('no unique module for %s: %r' % (pid, hits))
    name = 'props.' + os.path.basename(hits[0])[:-3]
    mod = importlib.import_module(name)
    import pydl
    try:
        from astropy import log as _alog
        _alog.setLevel('ERROR')
    except Exception:
        pass
    where = os.path.realpath(os.path.dirname(pydl.__file__))
    if where != os.path.join(REPO, 'pydl'):
        raise HarnessError('pydl imported from %s, expected %s' % (where, REPO))
    if hasattr(mod, 'setup') and not getattr(mod, '_vk_setup_done', False):
        mod.setup()
        mod._vk_setup_done = True
    return mod


def find_subcheck(mod, name):
    for sc in mod.SUBCHECKS:
        if sc.name == name:
            return sc
    raise HarnessError('no sub-check %s in %s' % (name, mod.PROPERTY))


# --------------------------------------------------------------------------
# known findings
# --------------------------------------------------------------------------
class Known(object):
    def __init__(self, path=None):
        self.known = []   # (property, key-pattern, text)
        self.fixed = []
        path = path or os.path.join(HERE, 'known_findings.txt')
        if not os.path.exists(path):
            return
        for line in open(path):
            line = line.strip()
            if not line or line.startswith('#'):
                continue
            head, _, rest = line.partition(' ')
            fields = dict(tok.split('=', 1) for tok in rest.split() if '=' in tok
                          and tok.split('=', 1)[0] in ('property', 'key'))
            if head == 'known:':
                text = rest.split('key=' + fields.get('key', ''), 1)[-1].strip()
                self.known.append((fields.get('property'), fields.get('key', ''), text))
            elif head == 'fixed:':
                self.fixed.append((fields.get('property'), rest))

    def match(self, pid, key):
        for p, pat, text in self.known:
            if p == pid and fnmatch.fnmatchcase(key, pat):
                return (pat, text)
        return None


# --------------------------------------------------------------------------
# per-example isolation
# --------------------------------------------------------------------------
@contextlib.contextmanager
def isolated():
    env = dict(os.environ)
    try:
        with warnings.catch_warnings():
            warnings.simplefilter('ignore')
            yield
    finally:
        if dict(os.environ) != env:
            os.environ.clear()
            os.environ.update(env)


def scratch_root():
    for d in ('/dev/shm', tempfile.gettempdir()):
        if os.path.isdir(d) and os.access(d, os.W_OK):
            return d
    return tempfile.gettempdir()


@contextlib.contextmanager
def tmpdir():
    d = tempfile.mkdtemp(prefix='vk_', dir=scratch_root())
    try:
        yield d
    finally:
        shutil.rmtree(d, ignore_errors=True)


# --------------------------------------------------------------------------
# statistics of one task
# --------------------------------------------------------------------------
def case_hash(case):
    return hashlib.sha1(json.dumps(case, sort_keys=True, default=repr)
                        .encode('utf-8', 'backslashreplace')).hexdigest()[:16]


class Stats(object):
    def __init__(self):
        self.evaluations = 0
        self.labels = collections.Counter()
        self.nontrivial = set()
        self.samples = []
        self.excluded = collections.Counter()
        self.violation = None
        self.harness = None
        self.regress_replayed = 0
        self.wall = 0.0
        self.counters = collections.Counter()            # summed over all cases
        self.distinct_counters = collections.Counter()   # summed over distinct case hashes only
        self.seen = set()

    def as_dict(self):
        return dict(evaluations=self.evaluations, labels=dict(self.labels),
                    nontrivial=sorted(self.nontrivial), samples=self.samples,
                    excluded=dict(self.excluded), violation=self.violation,
                    harness=self.harness, regress_replayed=self.regress_replayed,
                    wall=self.wall, counters=dict(self.counters), distinct_counters=dict(self.distinct_counters),
                    seen=sorted(self.seen) if self.distinct_counters else [])


def strip_obs(case):
    if isinstance(case, dict) and '_obs' in case:
        case = dict(case)
        case.pop('_obs')
    return case


class Executor(object):
    """Wraps a sub-check body with isolation, bucketing and counting."""

    def __init__(self, pid, sc, known, stats):
        self.pid, self.sc, self.known, self.stats = pid, sc, known, stats

    def __call__(self, case, count=True):
        ok = self.guard(case, lambda: self.sc.body(case), count_excluded=count)
        if ok and count:
            self.done(case)

    def guard(self, case, thunk, count_excluded=True):
        """Run thunk (a whole body, or one step of a stateful history whose ops so far are `case`)
        under isolation and bucketing.  True = fine; False = failed in a known-finding bucket
        (excluded by construction, the caller abandons this case); raises on anything else."""
        st = self.stats
        take_labels()
        take_counts()
        try:
            with isolated():
                thunk()
        except Violation as v:
            key = '%s:%s' % (self.sc.name, v.kind)
            hit = self.known.match(self.pid, key)
            if hit is not None:
                st.excluded[hit[0]] += 1
                st.evaluations += 1 if count_excluded else 0
                return False
            st.violation = dict(subcheck=self.sc.name, kind=v.kind,
                                detail=abbrev(v.detail, 2000),
                                case=json.loads(json.dumps(strip_obs(case), default=repr)))
            raise
        except (KeyboardInterrupt, SystemExit):
            raise
        except BaseException as e:  # noqa
            if type(e).__module__.startswith('hypothesis'):
                raise   # assume()/reject() control flow
            st.harness = dict(subcheck=self.sc.name, error=traceback.format_exc()[-3000:],
                              case=abbrev(strip_obs(case), 1500))
            raise HarnessError(str(e))
        return True

    def done(self, case):
        st = self.stats
        labels = sorted(set(list(self.sc.classify(case)) + take_labels()))
        st.evaluations += 1
        for lab in labels:
            st.labels[lab] += 1
        counts = take_counts()
        if counts:
            st.counters.update(counts)
            hh = case_hash(strip_obs(case))
            if hh not in st.seen:
                st.seen.add(hh)
                st.distinct_counters.update(counts)
        if self.sc.nontrivial(case, labels):
            st.labels['NONTRIVIAL'] += 1
            h = case_hash(strip_obs(case))
            if h not in st.nontrivial:
                st.nontrivial.add(h)
                if len(st.samples) < 4:
                    st.samples.append(dict(subcheck=self.sc.name, labels=labels,
                                           case=json.loads(json.dumps(strip_obs(case), default=repr))))


def task_seed(base, pid, sub, shard):
    h = hashlib.sha1(('%d:%s:%s:%d' % (base, pid, sub, shard)).encode()).hexdigest()
    return int(h[:8], 16)


def run_task(args):
    (pid, sub, tier, base_seed, shard, nshards, budget) = args
    t0 = time.time()
    st = Stats()
    try:
        os.environ.setdefault('PYTHONHASHSEED', '0')
        mod = load_property(pid)
        sc = find_subcheck(mod, sub)
        known = Known()
        ex = Executor(pid, sc, known, st)
        # 1. committed regression corpus (shrunk inputs of defects found earlier)
        if shard == 0:
            for path in sorted(glob.glob(os.path.join(HERE, 'regress', pid, '*.json'))):
                rec = json.load(open(path))
                if rec.get('subcheck') != sub:
                    continue
                st.regress_replayed += 1
                try:
                    ex(rec['case'], count=False)
                except Violation:
                    st.violation['replay_path'] = path
                    st.violation['from_regress'] = True
                    raise
        # 2. generation
        seed = task_seed(base_seed, pid, sub, shard)
        if sc.kind == 'exhaustive':
            for i, case in enumerate(sc.cases(tier)):
                if i % nshards != shard:
                    continue
                ex(case)
        elif sc.kind == 'hypothesis':
            _run_hypothesis(sc, ex, seed, budget, tier)
        elif sc.kind == 'stateful':
            _run_stateful(sc, ex, st, seed, budget, tier)
        else:
            raise HarnessError('unknown kind ' + sc.kind)
    except Violation:
        pass
    except HarnessError as e:
        if st.harness is None and st.violation is None:
            st.harness = dict(subcheck=sub, error=traceback.format_exc()[-3000:])
    except BaseException as e:  # noqa
        if st.violation is None and st.harness is None:
            st.harness = dict(subcheck=sub, error=traceback.format_exc()[-3000:])
    st.wall = time.time() - t0
    out = st.as_dict()
    out.update(subcheck=sub, shard=shard, seed=task_seed(base_seed, pid, sub, shard))
    return out


def _settings(budget, tier, **extra):
    from hypothesis import settings, HealthCheck, Verbosity
    import hypothesis.internal.conjecture.engine as engine
    engine.MAX_SHRINKING_SECONDS = 25 if tier == 'quick' else 120
    return settings(max_examples=max(1, budget), database=None, deadline=None,
                    derandomize=False, report_multiple_bugs=False, print_blob=False,
                    suppress_health_check=list(HealthCheck), verbosity=Verbosity.quiet,
                    **extra)


def _run_hypothesis(sc, ex, seed, budget, tier):
    from hypothesis import given, seed as hseed

    @hseed(seed)
    @_settings(budget, tier)
    @given(sc.strategy())
    def prop(case):
        ex(case)
    prop()


def _run_stateful(sc, ex, st, seed, budget, tier):
    from hypothesis import seed as hseed
    from hypothesis.stateful import run_state_machine_as_test
    steps = sc.steps[0] if tier == 'quick' else sc.steps[1]
    machine = sc.machine(ex)
    run_state_machine_as_test(hseed(seed)(machine),
                              settings=_settings(budget, tier, stateful_step_count=steps))


# --------------------------------------------------------------------------
# orchestration
# --------------------------------------------------------------------------
def write_replay(pid, viol, seed, tier):
    d = os.path.join(HERE, 'replays', pid)
    os.makedirs(d, exist_ok=True)
    rec = dict(property=pid, subcheck=viol['subcheck'], kind=viol['kind'],
               detail=viol['detail'], case=viol['case'], seed=seed, tier=tier)
    body = json.dumps(rec, indent=1, sort_keys=True, default=repr)
    path = os.path.join(d, hashlib.sha1(body.encode()).hexdigest()[:12] + '.json')
    with open(path, 'w') as f:
        f.write(body + '\n')
    return path


def do_replay(pid, path):
    mod = load_property(pid)
    rec = json.load(open(path))
    sc = find_subcheck(mod, rec['subcheck'])
    st = Stats()
    ex = Executor(pid, sc, Known(os.devnull), st)
    try:
        ex(rec['case'], count=False)
    except Violation as v:
        print('replay still fails: %s' % v)
        print('VIOLATION property=%s replay=%s' % (pid, path))
        return 1
    except HarnessError:
        sys.stderr.write(st.harness['error'] + '\n')
        return 2
    print('replay passes: property=%s subcheck=%s' % (pid, rec['subcheck']))
    return 0


def main(argv=None):
    ap = argparse.ArgumentParser()
    ap.add_argument('property')
    ap.add_argument('--tier', default=os.environ.get('VERIF_TIER') or 'quick',
                    choices=['quick', 'thorough'])
    ap.add_argument('--replay')
    ap.add_argument('--subcheck', action='append')
    ap.add_argument('--scale', type=float, default=float(os.environ.get('VERIF_SCALE', '1')))
    ap.add_argument('--jobs', type=int, default=int(os.environ.get('VERIF_JOBS', '16')))
    ap.add_argument('--no-evidence', action='store_true')
    a = ap.parse_args(argv)
    pid = a.property.upper()
    try:
        base_seed = int(os.environ.get('VERIF_SEED', '1') or '1')
    except ValueError:
        base_seed = 1
    if a.replay:
        return do_replay(pid, a.replay)

    t0 = time.time()
    try:
        mod = load_property(pid)
    except Exception:
        traceback.print_exc()
        return 2
    tasks = []
    for sc in mod.SUBCHECKS:
        if a.subcheck and sc.name not in a.subcheck:
            continue
        budget = sc.quick if a.tier == 'quick' else sc.thorough
        nshards = sc.shards[0] if a.tier == 'quick' else sc.shards[1]
        if sc.kind != 'exhaustive':
            budget = max(1, int(budget * a.scale))
            nshards = max(1, min(nshards, budget))
        per = max(1, budget // nshards)
        for sh in range(nshards):
            tasks.append((pid, sc.name, a.tier, base_seed, sh, nshards, per))
    import multiprocessing as mp
    jobs = max(1, min(a.jobs, len(tasks)))
    if jobs == 1:
        results = [run_task(t) for t in tasks]
    else:
        ctx = mp.get_context('spawn')
        with ctx.Pool(jobs) as pool:
            results = pool.map(run_task, tasks, chunksize=1)

    known = Known()
    per_sub = collections.OrderedDict()
    violations, harness = [], []
    for r in results:
        d = per_sub.setdefault(r['subcheck'], dict(evaluations=0, labels=collections.Counter(),
                                                  nontrivial=set(), samples=[], excluded=collections.Counter(),
                                                  regress_replayed=0, shards=0, wall=0.0, counters=collections.Counter(),
                                                  distinct_counters=collections.Counter(), seen=set()))
        d['evaluations'] += r['evaluations']
        d['labels'].update(r['labels'])
        d['nontrivial'].update(r['nontrivial'])
        d['samples'].extend(r['samples'])
        d['excluded'].update(r['excluded'])
        d['regress_replayed'] += r['regress_replayed']
        d['counters'].update(r.get('counters', {}))
        if r.get('distinct_counters'):
            # counters of scenarios already seen in another shard are not counted twice
            new = [h for h in r.get('seen', []) if h not in d['seen']]
            frac = len(new) / float(max(1, len(r.get('seen', []))))
            for kk, vv in r['distinct_counters'].items():
                d['distinct_counters'][kk] += int(round(vv * frac))
            d['seen'].update(new)
        d['shards'] += 1
        d['wall'] = max(d['wall'], r['wall'])
        if r['violation']:
            violations.append((r, r['violation']))
        if r['harness']:
            harness.append(r['harness'])

    total_eval = sum(d['evaluations'] for d in per_sub.values())
    total_nt = sum(len(d['nontrivial']) for d in per_sub.values())
    counters = collections.Counter()
    dcounters = collections.Counter()
    for d in per_sub.values():
        counters.update(d['counters'])
        dcounters.update(d['distinct_counters'])
    cases_eval, cases_nt = total_eval, total_nt
    if getattr(mod, 'EVAL_COUNTER', None):
        # fault enumeration: an evaluation is one fault-injected execution, not one scenario
        total_eval = counters.get(mod.EVAL_COUNTER, 0)
        total_nt = dcounters.get(mod.NONTRIVIAL_COUNTER, 0)
    excluded = collections.Counter()
    for d in per_sub.values():
        excluded.update(d['excluded'])
    samples = []
    for d in per_sub.values():
        samples.extend(d['samples'][:2])
    samples = samples[:12]

    rc = 0
    vac = []
    for name, d in per_sub.items():
        sc = find_subcheck(mod, name)
        if d['evaluations'] >= 20 and len(d['nontrivial']) < sc.floor * d['evaluations']:
            vac.append('%s: %d non-trivial of %d' % (name, len(d['nontrivial']), d['evaluations']))

    replay_paths = []
    seen = set()
    for r, v in violations:
        bucket = (v['subcheck'], v['kind'])
        if bucket in seen:
            continue
        seen.add(bucket)
        path = v.get('replay_path') or write_replay(pid, v, r['seed'], a.tier)
        replay_paths.append(path)
        print('violation: subcheck=%s kind=%s\n  detail: %s\n  case: %s' % (
            v['subcheck'], v['kind'], abbrev(v['detail'], 700), abbrev(json.dumps(v['case'], default=repr), 700)))
        print('VIOLATION property=%s replay=%s' % (pid, path))
        rc = 1
    for pat, n in sorted(excluded.items()):
        text = [t for p, k, t in known.known if p == pid and k == pat]
        print('KNOWN-FINDING: property=%s %s (key=%s; %d generated cases excluded)' % (
            pid, text[0] if text else '', pat, n))
    # known findings are announced even when the generator did not happen to hit them
    for p, k, t in known.known:
        if p == pid and k not in excluded:
            print('KNOWN-FINDING: property=%s %s (key=%s; 0 generated cases excluded)' % (pid, t, k))
    if harness and rc == 0:
        for h in harness[:3]:
            sys.stderr.write('HARNESS ERROR in %s:\n%s\n%s\n' % (h.get('subcheck'), h.get('error'), h.get('case', '')))
        rc = 2
    if vac and rc == 0:
        sys.stderr.write('VACUOUS GENERATOR: ' + '; '.join(vac) + '\n')
        rc = 2

    wall = time.time() - t0
    if not a.no_evidence and not a.subcheck:
        ev = dict(property_id=pid, tier=a.tier, seed=base_seed, level=mod.LEVEL,
                  wall_s=round(wall, 2), violations=len(replay_paths),
                  assumptions=list(mod.ASSUMPTIONS),
                  coverage=dict(
                      evaluations=total_eval, distinct_nontrivial=total_nt, rule=mod.RULE,
                      samples=samples,
                      exhaustive=bool(getattr(mod, 'EXHAUSTIVE', False)),
                      excluded_known=dict(excluded), counters=dict(counters), scenarios=cases_eval, scenarios_distinct_nontrivial=cases_nt,
                      harness_errors=len(harness),
                      subchecks={name: dict(evaluations=d['evaluations'],
                                            distinct_nontrivial=len(d['nontrivial']),
                                            labels=dict(sorted(d['labels'].items())),
                                            counters=dict(d['counters']), regress_replayed=d['regress_replayed'],
                                            shards=d['shards'], wall_s=round(d['wall'], 2),
                                            doc=find_subcheck(mod, name).doc)
                                 for name, d in per_sub.items()}))
        if hasattr(mod, 'EXTRA_COVERAGE'):
            ev['coverage'].update(mod.EXTRA_COVERAGE)
        os.makedirs(os.path.join(HERE, 'evidence'), exist_ok=True)
        with open(os.path.join(HERE, 'evidence', pid + '.json'), 'w') as f:
            json.dump(ev, f, indent=1, sort_keys=True, default=repr)
            f.write('\n')
    print('%s tier=%s seed=%d: %d cases (%d distinct non-trivial) in %d sub-checks, %.1fs -> %s' % (
        pid, a.tier, base_seed, total_eval, total_nt, len(per_sub), wall,
        {0: 'held', 1: 'VIOLATED', 2: 'HARNESS-ERROR'}[rc]))
    for name, d in per_sub.items():
        print('   %-28s %7d cases %7d non-trivial  %5.1fs' % (name, d['evaluations'], len(d['nontrivial']), d['wall']))
    return rc


if __name__ == '__main__':
    sys.exit(main())
