"""C15 -- least-squares and factorisation solvers return the optimum they claim."""
import math

import numpy as np
from hypothesis import strategies as st

from vk import SubCheck, Violation, call, judge, check, note_label

PROPERTY = 'C15'
LEVEL = 'exploration'
RULE = ('five Hypothesis sub-checks.  computechi2: A 5-60 x 1-6 (well conditioned by construction), b, weights with random zeros: acoeff, yfit, '
        'chi2, dof, covar = inv(A^T W A), var = diag vs numpy lstsq/inv.  pcomp: 20-80 x 2-6 matrices, correlation / covariance, '
        'standardize both: eigenvalues descending, coefficients . coefficients^T == corrcoef|cov, variance fractions sum to one, derived '
        '== data . coefficients.  HMF steps: low-rank(K 1-4)+noise spectra N 6-20 x M 20-60, ivar with random zeros but no zero column, '
        'harness-set a and g, epsilon None/0/>0: astep == per-object weighted lstsq, gstep == per-pixel weighted lstsq (epsilon None/0), '
        'zero gradient, chi^2 never increases, epsilon>0 update satisfies its stationarity equation.  HMF solve: unit-rms components, the '
        'same seed (incl. seed 0) gives identical a,g from different global RNG states, default mode leaves the caller arrays bit-identical, '
        'non-negative mode keeps a,g >= 0.  pca_solve: acoeff == ivar-weighted projection on the returned eigenspectra, eigenvalues '
        'non-increasing, usemask == number of good spectra per pixel.  Non-trivial: >=1 zero weight and K >= 2 (HMF), >= 3 parameters (computechi2).')
RULE += '  Also: data matrices with 3-8 observations for pcomp, pixels masked in every spectrum for pca_solve, pixels with fewer good spectra than components when epsilon > 0.'
RULE += ' Round 5: second solve() on the same HMF object; 257-300 spectra for pca_solve.'
ASSUMPTIONS = ['computechi2 is given a 2-D full-rank design matrix with cond(A sqrt(W)) < 3e4; tolerance 10 x max(1e-9, 1e-13 cond^2) relative (it inverts A^T W A)',
               'pcomp: the derived-variables relation is asserted for standardize=False (with standardize=True pydl adds the centred data back, mirroring the IDL routine; not covered by the statement as written)',
               'HMF / pca_solve spectra are non-degenerate (distinct, non-constant spectra; kmeans returns K centroids); no all-zero ivar row; all-zero ivar columns for pca_solve only; columns with fewer good spectra than components for HMF steps only with epsilon > 0',
               'pca_solve returns float32 eigenspectra: projection compared at 2e-4 relative',
               'the global NumPy RNG is re-seeded by the harness with case-supplied values before each HMF.solve to emulate "different global RNG states" deterministically']

uf = st.floats(-1.0, 1.0, allow_nan=False)


def pseudo(seed, shape, scale=1.0):
    """deterministic pseudo-random normal-ish array from an integer seed (part of the case, not an RNG of the check)"""
    n = int(np.prod(shape))
    k = np.arange(1, n + 1, dtype='f8')
    u = np.modf(np.sin(k * 12.9898 + seed * 78.233) * 43758.5453)[0]
    v = np.modf(np.sin(k * 39.3467 + seed * 11.135) * 24634.6345)[0]
    z = np.sqrt(-2 * np.log(np.abs(u) * 0.999 + 1e-4)) * np.cos(2 * math.pi * v)
    return scale * z.reshape(shape)


# ------------------------------------------------------------------ computechi2
@st.composite
def chi_case(draw):
    n = draw(st.integers(5, 60))
    m = min(draw(st.sampled_from([3, 4, 2, 6, 5, 1])), n - 2)
    zf = draw(st.sampled_from([0.2, 0.0, 0.4]))
    return dict(n=n, m=max(1, m), seed=draw(st.integers(0, 10 ** 6)), zf=zf, bscale=draw(st.sampled_from([1.0, 1e3, 1e-3])),
                order=list(draw(st.permutations(['covar', 'acoeff', 'var', 'chi2', 'yfit', 'dof']))),
                basis=draw(st.sampled_from(['rawpoly', 'poly', 'random'])), zero_rows=draw(st.sampled_from([0, 0, 1, 3])), near=draw(st.sampled_from([None, None, None, 1e-7, 1e-5])))


def chi_body(case):
    from pydl.pydlutils.math import computechi2
    n, m, seed = case['n'], case['m'], case['seed']
    if case['basis'] == 'rawpoly':
        # monomials on x = 0..n-1 scaled to [0, 2]: full rank but moderately ill conditioned (cond up to ~1e4)
        x = np.arange(n, dtype='f8') * (2.0 / max(n - 1, 1))
        A = np.array([x ** k for k in range(m)]).T
    elif case['basis'] == 'poly':
        x = np.linspace(-1, 1, n)
        A = np.array([np.polynomial.legendre.legval(x, [0] * k + [1]) for k in range(m)]).T
    else:
        A = pseudo(seed, (n, m))
    if case.get('zero_rows') and case['basis'] == 'random' and n >= m + 6:
        # round 12: templates that vanish over part of the range - rows of the matrix that are zero in every column, at points that carry
        # weight: they cannot be fitted but they are data (they count in chi2 and in the degrees of freedom)
        zr = np.argsort(pseudo(seed + 9, (n,)))[:case['zero_rows']]
        A[zr, :] = 0.0
        note_label('all-zero-rows-with-weight')
    b = case['bscale'] * pseudo(seed + 1, (n,))
    near = case.get('near') if case['basis'] != 'rawpoly' else None
    if near:
        # a very good fit: data that are a combination of the columns to within 1e-7 / 1e-5 (high signal-to-noise, or a large baseline)
        b = case['bscale'] * (A.dot(1.0 + pseudo(seed + 5, (m,))) + near * pseudo(seed + 1, (n,)))
    w = 0.5 + np.abs(pseudo(seed + 2, (n,)))
    z = np.abs(pseudo(seed + 3, (n,)))
    zero = np.argsort(z)[:int(case['zf'] * n)]
    if n - len(zero) < m + 1:
        zero = zero[:max(0, n - m - 1)]
    w[zero] = 0.0
    sq = np.sqrt(w)
    Aw = A * sq[:, None]
    cond = np.linalg.cond(Aw)
    if not cond < 3e4:
        note_label('ill-conditioned-skipped')
        return
    if cond > 1e3:
        note_label('cond>1e3')
    out = call(computechi2, b.copy(), sq.copy(), A.copy())
    # the attributes are lazy: whatever order they are first read in, they must describe the same solution
    for name in case.get('order', []):
        call(getattr, out, name, what='computechi2.' + name)
    ref = np.linalg.lstsq(Aw, b * sq, rcond=None)[0]
    cov = np.linalg.inv(Aw.T.dot(Aw))
    with judge('computechi2'):
        ac = np.asarray(out.acoeff, dtype='f8')
        tol = max(1e-9, 1e-13 * cond ** 2) * 10      # the routine works on A^T W A: relative error ~ eps * cond^2
        check(ac.shape == (m,), 'chi2:acoeff-shape')
        check(bool(np.all(np.abs(ac - ref) <= tol * max(np.abs(ref).max(), 1e-300))), 'chi2:acoeff-not-least-squares', lambda: dict(got=ac.tolist(), want=ref.tolist()))
        yf = np.asarray(out.yfit, dtype='f8')
        check(bool(np.all(np.abs(yf - A.dot(ref)) <= tol * max(np.abs(b).max(), 1e-300))), 'chi2:yfit-wrong')
        c2 = float(out.chi2)
        want = float((w * (b - A.dot(ref)) ** 2).sum())
        if near and cond < 100:
            # the residuals of a correct solver are accurate to ~eps cond^2 |b|; chi-square, their weighted square sum, accordingly
            rerr = (1e-13 * cond ** 2 + 1e-15) * np.abs(b).max()
            ctol = 1e-8 * want + 4 * math.sqrt(want * w.sum()) * rerr + 2 * w.sum() * rerr ** 2
            check(c2 >= 0 and abs(c2 - want) <= ctol, 'chi2:chi2-wrong-for-a-very-good-fit', lambda: dict(got=c2, want=want, allowed=ctol, cond=float(cond)))
            note_label('near-exact-fit')
        check(abs(c2 - want) <= 1e-8 * max(want, 1e-12 * (w * b * b).sum()), 'chi2:chi2-wrong', lambda: dict(got=c2, want=want))
        check(int(out.dof) == int((w > 0).sum()) - m, 'chi2:dof-wrong', lambda: dict(got=int(out.dof), want=int((w > 0).sum()) - m, zero_weights=len(zero)))
        cv = np.asarray(out.covar, dtype='f8')
        check(cv.shape == (m, m) and bool(np.all(np.abs(cv - cov) <= tol * np.abs(cov).max())), 'chi2:covar-not-inverse-of-AtWA',
              lambda: dict(maxdev=float(np.abs(cv - cov).max())))
        check(bool(np.all(np.abs(np.asarray(out.var) - np.diag(cov)) <= tol * np.abs(cov).max())), 'chi2:var-not-diagonal-of-covar')
    if len(zero):
        note_label('zero-weights')


# ------------------------------------------------------------------ pcomp
@st.composite
def pcomp_case(draw):
    return dict(no=draw(st.one_of(st.integers(20, 80), st.integers(20, 80), st.integers(3, 8))), nv=draw(st.sampled_from([3, 4, 2, 6, 5])), seed=draw(st.integers(0, 10 ** 6)),
                covariance=draw(st.booleans()), standardize=draw(st.booleans()), scale=draw(st.sampled_from([1.0, 100.0])),
                offset=draw(st.sampled_from([3.0, 3.0, 1e8, 2.4e6])), constcol=draw(st.sampled_from([None, None, None, 0, 1])))


def pcomp_body(case):
    from pydl import pcomp
    no, nv = case['no'], case['nv']
    mix = pseudo(case['seed'] + 5, (nv, nv))
    X = pseudo(case['seed'], (no, nv)).dot(mix) * case['scale'] + case.get('offset', 3.0)       # e.g. Julian dates: an offset 1e6-1e8 times the scatter
    if case.get('constcol') is not None and case['covariance'] and not case['standardize']:
        # a variable that does not vary (covariance mode: a zero row / column, one eigenvalue 0)
        X[:, case['constcol']] = 7.0
        note_label('constant-variable')
    keep = X.copy()
    p = call(pcomp, X, standardize=case['standardize'], covariance=case['covariance'])
    arr = (X - X.mean(0)) / X.std(0) if case['standardize'] else X
    C = np.cov(arr, rowvar=0) if case['covariance'] else np.corrcoef(arr, rowvar=0)
    with judge('pcomp'):
        ev = np.asarray(p.eigenvalues, dtype='f8')
        co = np.asarray(p.coefficients, dtype='f8')
        check(ev.shape == (nv,) and bool(np.all(np.diff(ev) <= 1e-12 * abs(ev[0]))), 'pcomp:eigenvalues-not-descending', lambda: dict(ev=ev.tolist()))
        ref = np.sort(np.linalg.eigvalsh(C))[::-1]
        check(bool(np.all(np.abs(ev - ref) <= 1e-9 * abs(ref[0]))), 'pcomp:eigenvalues-wrong', lambda: dict(got=ev.tolist(), want=ref.tolist()))
        check(bool(np.all(np.abs(co.dot(co.T) - C) <= 1e-9 * np.abs(C).max())), 'pcomp:components-do-not-reproduce-matrix',
              lambda: dict(maxdev=float(np.abs(co.dot(co.T) - C).max()), covariance=case['covariance']))
        va = np.asarray(p.variance, dtype='f8')
        check(abs(va.sum() - 1) <= 1e-12 and bool(np.all(np.abs(va - ev / ev.sum()) <= 1e-12)), 'pcomp:variance-fractions', lambda: dict(sum=float(va.sum())))
        if not case['standardize']:
            de = np.asarray(p.derived, dtype='f8')
            check(de.shape == X.shape and bool(np.all(np.abs(de - X.dot(co)) <= 1e-9 * np.abs(X).max() * max(1.0, np.abs(co).max()))), 'pcomp:derived-not-data-times-components')
        check(np.array_equal(X, keep), 'pcomp:input-modified')


# ------------------------------------------------------------------ HMF
@st.composite
def hmf_case(draw):
    K = draw(st.sampled_from([2, 3, 1, 4]))
    N = draw(st.integers(max(6, 3 * K), 20))
    M = draw(st.integers(20, 60))
    return dict(N=N, M=M, K=K, seed=draw(st.integers(0, 10 ** 6)), zf=draw(st.sampled_from([0.1, 0.0, 0.25])),
                epsilon=draw(st.sampled_from([None, 0.0, 0.3, 0.05])), positive=draw(st.booleans()), sparse_if_eps=draw(st.sampled_from([0, 0, 1, 2])),
                scale=draw(st.sampled_from([1.0, 1.0, 1e7, 1e-3, 1e4])), uniform=draw(st.sampled_from([0, 0, 1, 3])),
                prior_eps=draw(st.sampled_from(['same', 'same', 'same', None, 0.3, 1.0, 0.0])))


def hmf_data(case):
    N, M, K, seed = case['N'], case['M'], case['K'], case['seed']
    G = pseudo(seed, (K, M))
    A = pseudo(seed + 1, (N, K))
    if case.get('positive'):
        G, A = np.abs(G) + 0.5, np.abs(A) + 0.5
    sp = A.dot(G) + 0.05 * pseudo(seed + 2, (N, M))
    iv = 0.5 + np.abs(pseudo(seed + 3, (N, M)))
    z = np.abs(pseudo(seed + 4, (N, M)))
    thr = np.sort(z.ravel())[int(case['zf'] * N * M)] if case['zf'] else -1.0
    mask = z < thr
    # keep at least K+1 good entries in every row and column
    for j in range(M):
        if (~mask[:, j]).sum() < K + 2:
            mask[:, j] = False
    for i in range(N):
        if (~mask[i, :]).sum() < K + 2:
            mask[i, :] = False
    # optional degenerate pixels: `sparse` columns keep fewer good spectra than components (well-posed only with the smoothness
    # penalty epsilon > 0), `dead` columns are masked in every spectrum (pca_solve: use-mask count 0)
    for q in range(case.get('sparse', 0)):
        j = (seed + 11 * q + 3) % M
        rows = [(seed + 5 * q + r) % N for r in range(max(1, K - 1))]
        mask[:, j] = True
        mask[rows, j] = False
    for q in range(case.get('dead', 0)):
        mask[:, (seed + 7 * q + 1) % M] = True
    for q in range(case.get('dead_edge', 0)):
        # pixels at the ends of the range that are masked in every spectrum (beyond the wavelength coverage)
        mask[:, q // 2 if q % 2 == 0 else M - 1 - q // 2] = True
    iv[mask] = 0.0
    # spectra with one error bar for all their pixels (the same inverse variance everywhere, nothing masked)
    for q in range(case.get('uniform', 0)):
        iv[(seed + 3 * q) % N, :] = (4.0, 0.25, 2.5)[q % 3]
    for q in range(case.get('dead_edge', 0)):
        iv[:, q // 2 if q % 2 == 0 else M - 1 - q // 2] = 0.0
    if case.get('dead_mid'):
        # one pixel inside the range that is masked in every spectrum (a bad column, a sky line): HMF works on the longest run of usable pixels
        iv[:, (seed % 5) + 4] = 0.0
    # flux units: the same spectra in units S times smaller (values S times larger, inverse variances S^2 times smaller)
    S = case.get('scale', 1.0)
    return sp * S, iv / S ** 2


def hmf_steps_body(case):
    from pydl.pydlspec2d.spec1d import HMF
    N, M, K = case['N'], case['M'], case['K']
    sp, iv = hmf_data(case)
    eps = case['epsilon']
    if eps and case.get('sparse_if_eps'):
        case = dict(case, sparse=case['sparse_if_eps'])
        sp, iv = hmf_data(case)
        note_label('pixel-with-fewer-good-spectra-than-components')
    pe = case.get('prior_eps', 'same')
    if pe == 'same' or pe == eps or (not pe and case.get('sparse')):      # (steps without a penalty are not well posed on the sparse-pixel data)
        h = HMF(sp.copy(), iv.copy(), K=K, epsilon=eps)
    else:
        # a scan over the strength of the smoothness penalty on one object: steps taken with another epsilon before it is set to this one
        h = HMF(sp.copy(), iv.copy(), K=K, epsilon=pe)
        h.g = pseudo(case['seed'] + 9, (K, M))
        h.a = pseudo(case['seed'] + 10, (N, K))
        h.a = call(h.astep)
        h.g = call(h.gstep)
        h.epsilon = eps
        note_label('epsilon-changed-on-the-object')
    h.g = pseudo(case['seed'] + 7, (K, M))
    h.a = pseudo(case['seed'] + 8, (N, K))
    g0 = h.g.copy()
    b0 = float(call(h.badness))
    a = np.asarray(call(h.astep), dtype='f8')
    with judge('astep'):
        check(a.shape == (N, K), 'astep:shape')
        ref = np.array([np.linalg.lstsq(g0.T * np.sqrt(iv[i])[:, None], sp[i] * np.sqrt(iv[i]), rcond=None)[0] for i in range(N)])
        conds = max(np.linalg.cond(g0.T * np.sqrt(iv[i])[:, None]) for i in range(N))
        if conds < 1e4:
            S = case.get('scale', 1.0)
            check(bool(np.all(np.abs(a - ref) <= 1e-8 * conds ** 2 * max(S, np.abs(ref).max()))), 'astep:not-the-weighted-least-squares-optimum',
                  lambda: dict(maxdev=float(np.abs(a - ref).max()), cond=float(conds)))
            grad = np.array([g0.dot(iv[i] * (sp[i] - a[i].dot(g0))) for i in range(N)])
            gs = max(1.0 / S, np.abs(np.array([g0.dot(iv[i] * sp[i]) for i in range(N)])).max())
            check(bool(np.all(np.abs(grad) <= 1e-8 * conds * gs)), 'astep:gradient-not-zero', lambda: dict(max=float(np.abs(grad).max())))
    h.a = a
    b1 = float(call(h.badness))
    with judge('astep-monotone'):
        check(b1 <= b0 * (1 + 1e-10) + 1e-10, 'astep:chi2-increased', lambda: dict(before=b0, after=b1))
    g = np.asarray(call(h.gstep), dtype='f8')
    with judge('gstep'):
        check(g.shape == (K, M), 'gstep:shape')
        if not eps:
            refg = np.array([np.linalg.lstsq(a * np.sqrt(iv[:, j])[:, None], sp[:, j] * np.sqrt(iv[:, j]), rcond=None)[0] for j in range(M)]).T
            condg = max(np.linalg.cond(a * np.sqrt(iv[:, j])[:, None]) for j in range(M))
            if condg < 1e4:
                check(bool(np.all(np.abs(g - refg) <= 1e-8 * condg ** 2 * max(1.0, np.abs(refg).max()))), 'gstep:not-the-weighted-least-squares-optimum',
                      lambda: dict(maxdev=float(np.abs(g - refg).max()), cond=float(condg)))
                h.g = g
                b2 = float(call(h.badness))
                check(b2 <= b1 * (1 + 1e-10) + 1e-10, 'gstep:chi2-increased', lambda: dict(before=b1, after=b2))
        else:
            # stationarity of the penalised update, column by column (neighbours at their previous values)
            for j in range(M):
                Aj = (a.T * iv[:, j]).dot(a) + eps * (1 if j in (0, M - 1) else 2) * np.eye(K)
                nb = (g0[:, j - 1] if j > 0 else 0) + (g0[:, j + 1] if j < M - 1 else 0)
                Fj = a.T.dot(sp[:, j] * iv[:, j]) + eps * nb
                r = Aj.dot(g[:, j]) - Fj
                check(bool(np.all(np.abs(r) <= 1e-8 * max(1.0, np.abs(Fj).max(), np.abs(Aj).max() * np.abs(g[:, j]).max()))), 'gstep:stationarity-equation-violated',
                      lambda: dict(column=j, residual=r.tolist()))
    if (iv == 0).any():
        note_label('zero-weights')
    if case.get('uniform'):
        note_label('spectrum-with-one-weight-for-all-pixels')


@st.composite
def hmf_solve_case(draw):
    base = draw(hmf_case())
    nn = draw(st.sampled_from([False, True]))
    base['positive'] = nn or draw(st.booleans())          # the default mode also gets spectra with negative pixels (sky-subtracted noise)
    base['scale'] = 1.0
    if nn and draw(st.booleans()):
        base['epsilon'] = draw(st.sampled_from([10.0, 100.0, 1e4]))        # a strong smoothness penalty (non-negative mode only)
    base['dead_edge'] = draw(st.sampled_from([0, 0, 1, 2, 3]))
    base['dead_mid'] = draw(st.sampled_from([False, False, True]))
    # round 12: a pixel where every unmasked flux is exactly 0 (a saturated absorption trough) while a masked entry of that column holds a
    # non-zero number: it carries no information and is dropped like a column of zeros, whatever sits under the mask
    base['dark_col'] = draw(st.sampled_from([False, False, True]))
    return dict(base, nonnegative=nn, hseed=draw(st.sampled_from([0, 7, 12345, 1, 0])), n_iter=draw(st.sampled_from([3, 5])),
                state1=draw(st.integers(1, 10 ** 6)), state2=draw(st.integers(1, 10 ** 6)))


def hmf_solve_body(case):
    from pydl.pydlspec2d.spec1d import HMF
    sp, iv = hmf_data(case)
    K = case['K']
    eps = case['epsilon']
    if case.get('dark_col') and sp.shape[1] >= 8 and sp.shape[0] >= 3 and not case.get('dead_mid') and not case.get('dead_edge'):
        # (three pixels from the red end, and not together with the other kinds of bad columns: HMF keeps the longest run of usable pixels,
        # and a run shortened from several sides can leave a spectrum with fewer weighted pixels than components - a singular, ill-posed
        # problem of the harness' own making; seen once at seed 9 and corrected)
        j_ = sp.shape[1] - 3
        sp[:, j_] = 0.0
        iv[1, j_] = 0.0
        sp[1, j_] = 3.7
        note_label('dark-column-with-a-masked-non-zero-entry')
    outs = []
    objs = []
    for state in (case['state1'], case['state2']):
        s1, i1 = sp.copy(), iv.copy()
        np.random.seed(state)            # a different global RNG state before each construction ...
        objs.append((HMF(s1, i1, K=K, n_iter=case['n_iter'], seed=case['hseed'], nonnegative=case['nonnegative'], epsilon=eps), s1, i1, state))
    for h, s1, i1, state in objs:
        np.random.seed(state + 17)       # ... and before each solve (both objects exist before the first solve)
        np.random.random_sample(3)
        out = call(h.solve)
        outs.append((out, h, s1, i1))
    with judge('hmf-solve'):
        out, h, s1, i1 = outs[0]
        a, g = np.asarray(out['acoeff'], dtype='f8'), np.asarray(out['flux'], dtype='f8')
        check(g.shape[0] == K and a.shape == (sp.shape[0], K) and g.shape[1] <= sp.shape[1], 'hmf:shapes', lambda: dict(a=a.shape, g=g.shape))
        check(bool(np.all(np.isfinite(a)) and np.all(np.isfinite(g))), 'hmf:non-finite')
        nb = np.sqrt((g ** 2).mean(1))
        check(bool(np.all(np.abs(nb - 1) <= 1e-9)), 'hmf:components-not-unit-rms', lambda: dict(norms=nb.tolist()))
        check(bool(np.all(np.abs(np.asarray(h.normbase()) - 1) <= 1e-9)), 'hmf:normbase-not-one')
        a2, g2 = np.asarray(outs[1][0]['acoeff']), np.asarray(outs[1][0]['flux'])
        check(np.array_equal(a, a2) and np.array_equal(g, g2), 'hmf:same-seed-different-result',
              lambda: dict(seed=case['hseed'], maxdiff=float(np.abs(g - g2).max()) if g.shape == g2.shape else 'shape'))
        # the same object solved again: same seed, same data, same answer (nothing of the first run may be carried over)
        again = call(h.solve)
        check(np.array_equal(np.asarray(again['acoeff']), a) and np.array_equal(np.asarray(again['flux']), g), 'hmf:second-solve-on-same-object-differs',
              lambda: dict(nonnegative=case['nonnegative'], maxdiff=float(np.abs(np.asarray(again['flux']) - g).max()) if np.asarray(again['flux']).shape == g.shape else 'shape'))
        if not case['nonnegative']:
            check(np.array_equal(s1, sp) and np.array_equal(i1, iv), 'hmf:caller-arrays-modified-in-default-mode')
        else:
            check(bool(np.all(a >= 0) and np.all(g >= 0)), 'hmf:negative-factor-in-nonnegative-mode', lambda: dict(amin=float(a.min()), gmin=float(g.min())))
    if (iv == 0).any():
        note_label('zero-weights')


# ------------------------------------------------------------------ pca_solve
@st.composite
def pca_case(draw):
    base = draw(hmf_case())
    base['positive'] = True
    if draw(st.integers(0, 30)) == 0:
        base['N'] = draw(st.sampled_from([270, 300, 257]))        # survey-sized samples: more spectra than a byte can count
        base['M'] = 20
    return dict(base, nkeep=draw(st.sampled_from([2, 1, 3])), niter=draw(st.sampled_from([2, 3])), dead=draw(st.sampled_from([0, 0, 1, 2])),
                maxiter=draw(st.sampled_from([None, None, 1, 0, 2])), fewer=draw(st.booleans()))


def pca_body(case):
    from pydl.pydlspec2d.spec1d import pca_solve
    sp, iv = hmf_data(case)
    nk = min(case['nkeep'], case['K'] + 1)
    extra = {}
    if case.get('maxiter') is not None:
        extra['maxiter'] = case['maxiter']
    nret = nk
    if case.get('fewer') and nk > 1:
        nret = nk - 1              # fewer eigenspectra returned than kept in the iteration
        extra['nreturn'] = nret
    out = call(pca_solve, sp.copy(), iv.copy(), nkeep=nk, niter=case['niter'], **extra)
    nkeep_used, nk = nk, nret
    with judge('pca_solve'):
        flux = np.asarray(out['flux'], dtype='f8')
        ac = np.asarray(out['acoeff'], dtype='f8')
        ev = np.asarray(out['eigenval'], dtype='f8')
        N, M = sp.shape
        check(flux.shape == (nk, M) and ac.shape == (N, nkeep_used) and ev.shape == (nk,), 'pca:shapes', lambda: dict(flux=flux.shape, acoeff=ac.shape, ev=ev.shape))
        check(bool(np.all(np.diff(ev) <= 1e-9 * abs(ev[0]))), 'pca:eigenvalues-increase', lambda: dict(ev=ev.tolist()))
        check(np.array_equal(np.asarray(out['usemask']), (iv != 0).sum(0)), 'pca:usemask-not-count-of-good-spectra')
        for i in range(N if nk == nkeep_used else 0):        # coefficients refer to all kept eigenspectra: checkable when all are returned
            w = np.sqrt(iv[i])
            B = flux.T * w[:, None]
            if np.linalg.cond(B) < 1e3:
                ref = np.linalg.lstsq(B, sp[i] * w, rcond=None)[0]
                note_label('projection-checked')
                check(bool(np.all(np.abs(ac[i] - ref) <= 2e-4 * max(1.0, np.abs(ref).max()))), 'pca:acoeff-not-weighted-projection',
                      lambda: dict(obj=i, got=ac[i].tolist(), want=ref.tolist()))
    if (iv == 0).any():
        note_label('zero-weights')


SUBCHECKS = [
    SubCheck('computechi2', chi_body, strategy=chi_case, classify=lambda c: ['m:%d' % c['m'], 'basis:' + c['basis']],
             nontrivial=lambda c, l: c['m'] >= 3 and 'zero-weights' in l, quick=2500, thorough=100000, shards=(2, 16), doc='all attributes vs numpy lstsq / inv'),
    SubCheck('pcomp', pcomp_body, strategy=pcomp_case,
             classify=lambda c: ['covariance' if c['covariance'] else 'correlation', 'standardize' if c['standardize'] else 'raw', 'nv:%d' % c['nv']],
             nontrivial=lambda c, l: c['nv'] >= 3, quick=2000, thorough=80000, shards=(2, 16), doc='eigen-decomposition identities'),
    SubCheck('hmf_steps', hmf_steps_body, strategy=hmf_case, classify=lambda c: ['K:%d' % c['K'], 'eps:%s' % c['epsilon']],
             nontrivial=lambda c, l: c['K'] >= 2 and 'zero-weights' in l, quick=1200, thorough=20000, shards=(8, 16), doc='astep / gstep optimality and monotonicity'),
    SubCheck('hmf_solve', hmf_solve_body, strategy=hmf_solve_case,
             classify=lambda c: ['K:%d' % c['K'], 'seed:%d' % c['hseed'], 'nonnegative' if c['nonnegative'] else 'default', 'eps:%s' % c['epsilon']],
             nontrivial=lambda c, l: c['K'] >= 2 and 'zero-weights' in l, quick=640, thorough=8000, shards=(16, 16), doc='normalisation, seed reproducibility, caller arrays, non-negativity'),
    SubCheck('pca_solve', pca_body, strategy=pca_case, classify=lambda c: ['nkeep:%d' % c['nkeep']],
             nontrivial=lambda c, l: c['K'] >= 2 and 'zero-weights' in l, quick=800, thorough=10000, shards=(8, 16), doc='weighted projections, eigenvalue order, usemask'),
]
