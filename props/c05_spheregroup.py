"""C05 -- spheregroup partitions points into friends-of-friends components."""
import itertools
import math

import numpy as np
from hypothesis import strategies as st

from vk import SubCheck, Violation, call, judge, check, note_label
from props import geolib as G

PROPERTY = 'C05'
LEVEL = 'exploration'
RULE = ('Hypothesis point sets (2-40 points) from labelled families: clusters, seam clusters, near-polar, exactly-on-a-pole, all-sky, '
        'half-chunk lattices, shuffled chains with 0.7-1.1 linking-length steps along RA / Dec / diagonals crossing many '
        'chunks, several filaments / bending polylines that meet, persistent lattice random walks of 30-80 points (hooked, branched chains labelled in different chunks and merged late); bounded-exhaustive sub-check: every subset (>=2 points) of a 3x3 lattice with pitch '
        '0.9 or 1.1 linking lengths at seam / chunk-corner / polar anchors.  Linking length 10^U(-3.5,1.2) deg, chunksize None or '
        '4-30 x.  Oracle: brute-force union-find on the independent separation matrix evaluated at both ends of a 1e-7 '
        'tolerance band (components at L(1-t) must refine the answer, which must refine components at L(1+t)); then '
        'numbering, multiplicity, first, next-walk, tail entries.  Non-trivial = a group of size >=3 spread over >=2 chunks, '
        'or a group straddling the seam or within 5 deg of a pole.')
RULE += '  Also: linking lengths 1e-7 .. 87 deg and exactly 0 (bit-identical positions), points exactly on / 1 ulp from a pole, slice-edge family, wide strips with > 32767 RA chunks, integer coordinate arrays.'
RULE += ' Round 5: RA exactly 360.0.'
RULE += ' Round 9: a third of the cases are preceded by a call on the same array objects with 0.02-2 x the linking length and the same chunk size (scan over the length); sub-check seam_ulp_sweep.'
ASSUMPTIONS = ['chunksize >= 4 x linking length is enforced by spheregroup itself; the generator also bounds the grid to <= 2e4 cells',
               'separations within 1e-7 relative of the linking length may link or not',
               '|Dec| <= 90 including points exactly on a pole (families pole-exact / pole-near), RA in [0,360] (360.0 itself is generated: the same meridian as 0)', 'linking lengths from 1e-7 deg (sub-milliarcsecond) up; the reference separations are exact to ~1e-16 rad, i.e. 1e-7 relative at 1e-7 deg, inside the band']


def components(adj):
    n = len(adj)
    lab = [-1] * n
    c = 0
    for i in range(n):
        if lab[i] >= 0:
            continue
        stack = [i]
        lab[i] = c
        while stack:
            u = stack.pop()
            for v in np.nonzero(adj[u])[0]:
                if lab[v] < 0:
                    lab[v] = c
                    stack.append(int(v))
        c += 1
    return lab


@st.composite
def filaments(draw, L):
    """Two or three chains that approach / meet each other: exercises cross-chunk merging of groups."""
    c = (draw(st.sampled_from([0.0, 359.8, 100.0, 250.0])) + draw(G.unitf), 70 * draw(G.unitf))
    cosd = max(math.cos(math.radians(c[1])), 1e-3)
    pts = []
    nf = draw(st.integers(2, 3))
    for f in range(nf):
        ang = draw(st.sampled_from([0.0, math.pi / 2, math.pi / 4, -math.pi / 4, 2.5]))
        start = (draw(st.integers(-4, 4)) * L, draw(st.integers(-4, 4)) * L)
        pos = 0.0
        for _ in range(draw(st.integers(3, 12))):
            x = start[0] + pos * math.cos(ang)
            y = start[1] + pos * math.sin(ang)
            pts.append((G._wrap(c[0] + x / cosd), G._clipdec(c[1] + y)))
            pos += L * draw(st.sampled_from([0.7, 0.9, 0.99, 1.01, 1.2]))
    pts = draw(st.permutations(pts))
    return dict(family='filaments', ra1=[p[0] for p in pts], dec1=[p[1] for p in pts])


@st.composite
def polylines(draw, L):
    """2-4 axis-aligned polylines (1-3 legs of 2-9 steps of 0.75 L each) starting on a coarse lattice: long structures
    that span several chunks, bend, and meet other structures only in a later row/column of chunks."""
    c = (draw(st.sampled_from([0.0, 359.7, 100.0, 250.0, 5.0])) + draw(G.unitf), 60 * draw(G.unitf))
    cosd = max(math.cos(math.radians(c[1])), 1e-3)
    step = 0.75 * L
    cells = set()
    for _ in range(draw(st.integers(2, 4))):
        x, y = draw(st.integers(-3, 3)) * 3, draw(st.integers(-3, 3)) * 3
        cells.add((x, y))
        for _leg in range(draw(st.integers(1, 3))):
            dx, dy = draw(st.sampled_from([(1, 0), (-1, 0), (0, 1), (0, -1)]))
            for _ in range(draw(st.integers(2, 9))):
                x, y = x + dx, y + dy
                cells.add((x, y))
    cells = sorted(cells)[:70]
    cells = draw(st.permutations(cells))
    pts = [(G._wrap(c[0] + x * step / cosd), G._clipdec(c[1] + y * step)) for x, y in cells]
    return dict(family='polylines', ra1=[p[0] for p in pts], dec1=[p[1] for p in pts])


@st.composite
def randomwalk(draw, L):
    """one or two persistent random walks on a lattice of pitch 0.9 L (30-70 steps): hooked / branched chains through many
    chunks whose parts are labelled in different chunks and merged late"""
    c = (draw(st.sampled_from([150.0, 0.3, 359.6, 250.0])) + draw(G.unitf), 60 * draw(G.unitf))
    cosd = max(math.cos(math.radians(c[1])), 1e-3)
    step = 0.9 * L
    cells = []
    for w in range(draw(st.sampled_from([1, 1, 2]))):
        x, y = (0, 0) if w == 0 else (draw(st.integers(-6, 6)), draw(st.integers(-6, 6)))
        d = draw(st.sampled_from([(1, 0), (-1, 0), (0, 1), (0, -1)]))
        cells.append((x, y))
        for _ in range(draw(st.integers(15, 45))):
            if draw(st.integers(0, 9)) < 3:
                d = draw(st.sampled_from([(1, 0), (-1, 0), (0, 1), (0, -1)]))
            x, y = x + d[0], y + d[1]
            cells.append((x, y))
    far = (draw(st.integers(8, 12)), draw(st.integers(8, 12)))      # an isolated point: a group of its own
    cells = sorted(set(cells))[:80] + [far]
    cells = draw(st.permutations(cells))
    pts = [(G._wrap(c[0] + x * step / cosd), G._clipdec(c[1] + y * step)) for x, y in cells]
    return dict(family='randomwalk', ra1=[p[0] for p in pts], dec1=[p[1] for p in pts])


@st.composite
def comb(draw):
    """three to five long north-south chains joined by east-west bridges that lie further and further north: the provisional labels of
    one component are merged in several nested steps (chains crossing tens of chunks), with isolated points between the teeth"""
    L = draw(st.sampled_from([1.0, 0.5, 0.2]))
    step = L * draw(st.sampled_from([0.8, 0.9, 0.7]))
    teeth = draw(st.integers(3, 5))
    ra0 = draw(st.sampled_from([100.0, 352.0, 200.0]))
    dec0 = draw(st.sampled_from([0.0, -20.0, 10.0]))
    gap = draw(st.sampled_from([20, 14, 25]))                  # steps between neighbouring teeth
    heights = sorted((draw(st.integers(10, 34)) for _ in range(teeth)), reverse=True)      # tooth 0 is the longest
    east = draw(st.booleans())
    pts = []
    for k in range(teeth):
        r = ra0 + (k if east else -k) * gap * step
        for i in range(heights[k] + 1):
            pts.append((G._wrap(r), dec0 + i * step))
    for k in range(1, teeth):
        # bridge from the top of tooth k to tooth k-1 (which reaches at least as far north)
        for j in range(1, gap):
            r = ra0 + ((k - 1) * gap + j) * step * (1 if east else -1)
            pts.append((G._wrap(r), dec0 + heights[k] * step))
    for k in range(1, teeth):
        if draw(st.booleans()):
            pts.append((G._wrap(ra0 + ((k - 0.5) * gap) * step * (1 if east else -1)), dec0 + draw(st.integers(0, 5)) * step))     # alone between two teeth
    order = draw(st.permutations(list(range(len(pts))))) if draw(st.booleans()) else list(range(len(pts)))
    return dict(family='comb', ra=[pts[i][0] for i in order], dec=[pts[i][1] for i in order], L=L, chunksize=draw(st.sampled_from([None, None, 5.0 * L, 8.0 * L])))


def corner_points(case):
    """round 11: many isolated points on the corners of the chunk grid (within the linking length of an RA boundary and of a declination
    edge: each belongs to four chunks and gets a provisional label in each), then a linked pair further north that straddles a slice edge.
    The grid is read from the package for the same extent (two anchors near the poles fix it)."""
    from pydl.pydlutils.spheregroup import chunks
    L = case['L']
    ra, dec = [0.5, 359.5], [-82.0, 82.0]
    c = chunks(np.array(ra + [180.0]), np.array(dec + [0.0]), 4.0 * L)
    db = np.asarray(c.decBounds, dtype='f8')
    row = int(np.argmin(np.abs(db - case['dec_row'])))
    row = min(max(row, 1), len(db) - 12)
    rab = np.asarray(c.raBounds[row], dtype='f8')
    eps = 0.01 * L
    for k in range(2, min(2 + 2 * case['nfill'], len(rab) - 1), 2):
        ra.append(float(rab[k] + eps))
        dec.append(float(db[row] + (eps if (k // 2) % 2 else -eps)))
    edge = float(db[row + case['rows_up']])
    ra += [case['pair_ra'], case['pair_ra']]
    dec += [edge + 0.5 * L, edge + (0.5 + case['gap']) * L]
    return ra, dec


@st.composite
def corners(draw):
    return dict(family='corner-fillers', L=draw(st.sampled_from([1.0, 0.7, 1.5])), nfill=draw(st.integers(20, 44)), dec_row=draw(st.sampled_from([0.0, -12.0, 20.0])),
                rows_up=draw(st.integers(2, 10)), pair_ra=draw(st.sampled_from([200.0, 17.3, 301.0])), gap=draw(st.sampled_from([0.7, 0.95, 1.3])), ra=[], dec=[], chunksize=None)


@st.composite
def case_strategy(draw):
    if draw(st.integers(0, 11)) == 0:
        return draw(comb())
    if draw(st.integers(0, 24)) == 0:
        return draw(corners())
    L = 10 ** (draw(st.one_of(st.integers(-35, 12), st.integers(-70, -35), st.integers(-35, 19))) / 10.0) * (1 + 0.1 * draw(G.unitf))     # 1e-7 .. 87 deg
    which = draw(st.integers(0, 7))
    if which == 0:
        pts = draw(filaments(L))
    elif which in (1, 2):
        pts = draw(polylines(L))
    elif which in (3, 4):
        L = max(L, 0.03)        # the default chunk size max(4 L, 0.1) must stay close to 4 L for the walk to cross many chunks
        pts = draw(randomwalk(L))
    else:
        fam = draw(st.sampled_from(['cluster', 'seam', 'seam', 'polar', 'pole-exact', 'pole-near', 'allsky', 'lattice', 'chain', 'chain', 'chain', 'slice-edge']))
        if fam == 'slice-edge':
            L = draw(st.sampled_from([45.0, 30.0, 25.0, 60.0, 52.0, 75.0])) * (1 + 0.02 * draw(G.unitf))
        pts = draw(G.point_sets(L, nmin=2, nmax=40 if fam != 'slice-edge' else 12, two_lists=False, families=[fam]))
    if pts['family'] == 'allsky':
        L = max(L, 0.5)
    if draw(st.integers(0, 12)) == 0:
        # integer-valued coordinates handed over as integer arrays (positions from a catalogue grid)
        L = draw(st.sampled_from([1.5, 2.5, 1.0]))
        k = draw(st.integers(3, 25))
        cells = draw(st.lists(st.tuples(st.integers(0, 359), st.integers(-60, 60)), min_size=k, max_size=k, unique=True))
        near = [(min(359, c[0] + draw(st.integers(0, 2))), c[1] + draw(st.integers(0, 2))) for c in cells[:k // 2]]
        pts = dict(family='integer-arrays', ra1=[c[0] for c in cells + near], dec1=[c[1] for c in cells + near])
    if pts['family'] in ('chain', 'filaments', 'polylines', 'randomwalk', 'cluster') and draw(st.integers(0, 2)) == 0:
        # a few isolated background points next to the structure (1.3 - 3 lengths from one of its points, farther than that from
        # every other point), listed AFTER all its members in the input
        ra_, dec_ = list(pts['ra1']), list(pts['dec1'])
        for _ in range(draw(st.integers(2, 5))):
            j = draw(st.integers(0, len(ra_) - 1))
            r = L * draw(st.sampled_from([1.3, 1.7, 2.2, 3.0]))
            ang = math.pi * draw(G.unitf)
            cosd = max(math.cos(math.radians(dec_[j])), 1e-3)
            cand = (G._wrap(ra_[j] + r * math.cos(ang) / cosd), G._clipdec(dec_[j] + r * math.sin(ang)))
            S_ = G.sepmat(np.array([cand[0]]), np.array([cand[1]]), np.array(ra_), np.array(dec_))
            if S_.min() > 1.05 * L:
                ra_.append(cand[0])
                dec_.append(cand[1])
        if len(ra_) > len(pts['ra1']):
            pts = dict(pts, ra1=ra_, dec1=dec_, family=pts['family'] + '+background')
    special = draw(st.integers(0, 60))
    if special == 2:
        # two to four positions far from each other and a linking length of tens of degrees that still keeps them apart
        shapes = [[(0.0, 0.0), (180.0, 0.0)], [(0.0, 0.0), (120.0, 0.0), (240.0, 0.0)], [(0.0, 89.0), (0.0, -19.47), (120.0, -19.47), (240.0, -19.47)],
                  [(10.0, 30.0), (190.0, -30.0)], [(0.0, 0.0), (90.0, 0.0), (180.0, 0.0), (270.0, 0.0)]]
        sh = draw(st.sampled_from(shapes))
        rot = 360.0 * abs(draw(G.unitf))
        pp = [(G._wrap(r + rot), d + 0.3 * draw(G.unitf)) for r, d in sh]
        Sm = G.sepmat(np.array([p[0] for p in pp]), np.array([p[1] for p in pp]), np.array([p[0] for p in pp]), np.array([p[1] for p in pp]))
        minsep = float(np.min(Sm[~np.eye(len(pp), dtype=bool)]))
        return dict(family='few-far', ra=[p[0] for p in pp], dec=[p[1] for p in pp], L=draw(st.sampled_from([0.5, 0.7, 0.9])) * minsep, chunksize=None)
    if special == 0:
        # linking length exactly 0: positions given more than once (bit-identical coordinates) are 0 apart and belong together
        k = draw(st.integers(1, 6))
        # (within a patch of two degrees: with the default chunk size of 0.1 deg an all-sky spread would mean millions of chunks)
        c_ = (180.0 * (1 + draw(G.unitf)), 80.0 * draw(G.unitf))
        base = [(G._wrap(c_[0] + draw(G.unitf)), G._clipdec(c_[1] + draw(G.unitf))) for _ in range(k)]
        reps = [base[draw(st.integers(0, k - 1))] for _ in range(draw(st.integers(1, 8)))]
        allp = list(draw(st.permutations(base + reps)))
        return dict(family='duplicates-L0', ra=[p[0] for p in allp], dec=[p[1] for p in allp], L=0.0, chunksize=None)
    if special in (3, 4):
        # round 11: linking lengths of a few 1e-9 degrees (sub-milliarcsecond: repeated astrometric solutions of one source): a chain along a
        # meridian with gaps of 0.5 .. 1.5 linking lengths - "do not exceed" holds at every scale, there is no absolute slack
        L = draw(st.sampled_from([1e-9, 3e-9, 1e-8, 2e-9]))
        r0 = draw(st.sampled_from([100.0, 0.0, 359.999999, 17.25]))
        d0 = draw(st.sampled_from([0.0, 30.0, -45.5]))
        gaps = [draw(st.sampled_from([0.9, 1.04, 0.5, 1.5, 0.97, 1.06, 1.2])) for _ in range(draw(st.integers(2, 8)))]
        decs = [d0]
        for g_ in gaps:
            decs.append(decs[-1] + g_ * L)
        order = draw(st.permutations(list(range(len(decs)))))
        return dict(family='tiny-L', ra=[r0 for _ in order], dec=[decs[i] for i in order], L=L, chunksize=draw(st.sampled_from([None, 0.1, 1.0])))
    if special == 1:
        # a strip narrow in declination and wide in RA with a small explicit chunk size: more than 32767 RA chunks in a slice
        L = draw(st.sampled_from([0.002, 0.0015]))
        k = draw(st.integers(4, 10))
        ras = [G._wrap(40.0 + 270.0 * i / (k - 1) + 0.5 * L * draw(G.unitf)) for i in range(k)]
        ras += [G._wrap(r + L * draw(st.sampled_from([0.6, 0.9, 1.2]))) for r in ras[::2]]
        d0 = draw(st.sampled_from([0.0, 12.0, -33.0]))
        decs = [d0 + 0.4 * L * draw(G.unitf) for _ in ras]
        order = draw(st.permutations(list(range(len(ras)))))
        return dict(family='wide-strip', ra=[ras[i] for i in order], dec=[decs[i] for i in order], L=L, chunksize=4.0 * L)
    if pts['family'] in ('allsky', 'polar', 'pole-exact', 'pole-near', 'seam') and draw(st.integers(0, 3)) == 0:
        # a right ascension given as exactly 360.0 (the same meridian as 0.0), next to points on either side of it
        k = draw(st.integers(0, len(pts['ra1']) - 1))
        pts['ra1'][k] = 360.0
        pts['family'] += '+ra360'
    cs = draw(st.sampled_from([None, None, 4.0, 4.0, 6.0, 10.0, 30.0] if pts['family'] not in ('randomwalk', 'polylines', 'slice-edge') else [4.0, None, 4.0, 5.0, 8.0]))
    if pts['family'] == 'slice-edge':
        cs = None
    eff = max(4.0 * L, 0.1) if cs is None else cs * L
    safe = G.safe_chunksize(pts['ra1'], pts['dec1'], eff)
    prior = draw(st.sampled_from([None, None, None, None, 0.05, 0.2, 0.5, 2.0, 0.02]))
    if prior is not None and prior > 1:
        safe = G.safe_chunksize(pts['ra1'], pts['dec1'], max(eff, 4.0 * prior * L))
    return dict(family=pts['family'], ra=pts['ra1'], dec=pts['dec1'], L=L, chunksize=None if (cs is None and safe == eff) else safe, prior=prior)


def lattice_cases(tier):
    anchors = [(0.0, 0.0), (359.95, 10.0), (120.0, 45.0), (10.0, 89.7), (200.0, -89.8), (0.02, -60.0)]
    for (ra0, dec0), pitch, L, cs in itertools.product(anchors, (0.9, 1.1), (0.05, 1.0), (None, 4.0)):
        cosd = max(math.cos(math.radians(dec0)), 1e-3)
        grid = [(G._wrap(ra0 + (i - 1) * pitch * L / cosd), G._clipdec(dec0 + (j - 1) * pitch * L)) for i in range(3) for j in range(3)]
        for mask in range(1, 512):
            sel = [grid[b] for b in range(9) if mask >> b & 1]
            if len(sel) < 2:
                continue
            yield dict(family='lattice3x3', ra=[p[0] for p in sel], dec=[p[1] for p in sel], L=L,
                       chunksize=None if cs is None else cs * L)


def seam_ulp_cases(tier):
    """rings that wrap around the sky (no RA offset avoids the seam, the slices embrace 0..360) holding the largest double below 360
    next to points just across the seam, for every number of RA chunks from 5 to ~420 (and 420-2000 in steps for the thorough tier):
    the chunk index of that point is floor((ra - 0) * nRa / 360) and must stay below nRa whatever nRa is"""
    below = float(np.nextafter(360.0, 0.0))
    ks = list(range(5, 421)) + (list(range(421, 2000, 7)) if tier == 'thorough' else list(range(421, 1200, 37)))
    for dec0 in (0.0, 40.0):
        cosd = math.cos(math.radians(dec0))
        for k in ks:
            cs = 360.0 * cosd / (k + 0.5)
            L = min(0.01, cs / 5.0)
            for last, first in ((below, 0.25 * L / cosd), (360.0 - 1e-13, 0.0)):
                ras = [last, first, 60.0, 120.0, 180.0, 240.0, 300.0, 300.0 + 0.6 * L / cosd, 240.0 + 2.0 * L / cosd]
                decs = [dec0, dec0 + 0.3 * L, dec0, dec0 - 0.2 * L, dec0, dec0 + 0.1 * L, dec0, dec0, dec0]
                yield dict(family='seam-ulp', ra=ras, dec=decs, L=L, chunksize=cs)


def body(case):
    from pydl.pydlutils.spheregroup import spheregroup
    ra, dec = np.array(case['ra']), np.array(case['dec'])
    if case['family'] == 'corner-fillers':
        ra, dec = [np.array(v) for v in corner_points(case)]
    if case['family'] == 'integer-arrays':
        ra, dec = ra.astype('i8'), dec.astype('i8')
    n = len(ra)
    L = case['L']
    S = G.sepmat(ra, dec, ra, dec)
    same = (ra[:, None] == ra[None, :]) & (dec[:, None] == dec[None, :])      # bit-identical positions are 0 apart: linked for every L >= 0
    lo = components(~(S > L * (1 - G.REL) - G.ABS) | same)      # links that certainly exist
    hi = components(~G.above(S, L))                        # links that may exist
    cs_used = case['chunksize']
    if case.get('prior'):
        # a scan over the linking length: an earlier call on the very same array objects with another length and the same chunk size
        # must not influence this one
        if cs_used is None:
            cs_used = G.safe_chunksize(ra, dec, max(4.0 * max(L, case['prior'] * L), 0.1))
        call(spheregroup, ra, dec, case['prior'] * L, chunksize=cs_used)
        note_label('after-a-call-with-another-length')
    ing, mult, first, nxt = call(spheregroup, ra, dec, L, chunksize=cs_used)
    with judge('partition'):
        ing = [int(x) for x in ing]
        check(len(ing) == n and len(mult) == n and len(first) == n and len(nxt) == n, 'wrong-lengths')
        for g in set(lo):
            mem = [i for i in range(n) if lo[i] == g]
            check(len({ing[i] for i in mem}) == 1, 'linked-points-in-different-groups',
                  lambda: dict(points=mem, groups=[ing[i] for i in mem], L=L))
        for g in set(ing):
            mem = [i for i in range(n) if ing[i] == g]
            check(len({hi[i] for i in mem}) == 1, 'unlinked-points-in-same-group',
                  lambda: dict(points=mem, L=L, seps=[float(S[mem[0], m]) for m in mem]))
        seen = []
        for g in ing:
            if g not in seen:
                seen.append(g)
        check(seen == list(range(len(seen))), 'groups-not-numbered-by-first-member', lambda: dict(ingroup=ing))
        ng = len(seen)
        for g in range(ng):
            mem = [i for i in range(n) if ing[i] == g]
            check(int(mult[g]) == len(mem), 'wrong-multiplicity', lambda: dict(group=g, got=int(mult[g]), want=len(mem)))
            check(int(first[g]) == mem[0], 'wrong-first-member', lambda: dict(group=g, got=int(first[g]), want=mem[0]))
            walk = []
            j = int(first[g])
            while j != -1 and len(walk) <= n:
                walk.append(j)
                j = int(nxt[j])
            check(sorted(walk) == mem and len(walk) == len(mem), 'next-walk-wrong', lambda: dict(group=g, walk=walk, members=mem))
        check(all(int(x) == 0 for x in mult[ng:]) and all(int(x) == -1 for x in first[ng:]), 'tail-entries-not-0/-1',
              lambda: dict(mult=[int(x) for x in mult], first=[int(x) for x in first], ngroups=ng))
    # observational labels
    sizes = [int(mult[g]) for g in range(ng)]
    if max(sizes) >= 3:
        note_label('group>=3')
    try:
        from pydl.pydlutils.spheregroup import chunks
        cs = cs_used
        cs = max(4.0 * L, 0.1) if cs is None else max(cs, 4.0 * L)
        ch = chunks(ra, dec, cs)
        for g in range(ng):
            mem = [i for i in range(n) if ing[i] == g]
            if len(mem) >= 3:
                cells = {ch.get(math.fmod(ra[i] + ch.raOffset, 360.0), dec[i]) for i in mem}
                if len(cells) >= 2:
                    note_label('big-group-in->=2-chunks')
            if len(mem) >= 2:
                rr = [ra[i] for i in mem]
                if max(rr) - min(rr) > 180:
                    note_label('group-straddles-seam')
                if max(abs(dec[i]) for i in mem) > 85:
                    note_label('group-near-pole')
    except Exception:
        note_label('grid-introspection-failed')


def classify(case):
    return ['family:' + case['family'], 'prior-call:%s' % case.get('prior'), 'chunksize:' + ('default' if case['chunksize'] is None else 'explicit'),
            'n:%d' % (10 * (len(case['ra']) // 10)), 'L:1e%d' % math.floor(math.log10(case['L'])) if case['L'] > 0 else 'L:0']


def nontrivial(case, labels):
    return bool({'big-group-in->=2-chunks', 'group-straddles-seam', 'group-near-pole'} & set(labels))


# ------------------------------------------------------------------ catalogues with more points than a 16-bit counter holds
@st.composite
def many_case(draw):
    return dict(nrows=draw(st.sampled_from([100, 96, 110])), ncols=draw(st.sampled_from([350, 360, 345])), L=draw(st.sampled_from([0.25, 0.2])),
                comp=sorted(draw(st.lists(st.integers(0, 30000), min_size=5, max_size=40, unique=True))), second=draw(st.booleans()),
                shift=abs(draw(G.unitf)), perm_seed=draw(st.integers(0, 10 ** 6)))


def many_body(case):
    """a lattice of isolated points one degree apart (33 000 - 40 000 of them) and a few companions 0.6 L from chosen lattice points: the
    expected partition is known by construction (no separation matrix of that size is needed)"""
    from pydl.pydlutils.spheregroup import spheregroup
    nr, nc, L = case['nrows'], case['ncols'], case['L']
    dd = -0.5 * nr + np.arange(nr) + 0.37
    rr = (np.arange(nc) * (360.0 / nc) + case['shift']) % 360.0
    decs = np.repeat(dd, nc)
    ras = np.tile(rr, nr) / 1.0
    # RA pitch of 360/nc degrees is >= 1 degree on the sky only near the equator: keep |dec| < 50 where cos(dec) * pitch > 0.64 > 2.5 L
    n0 = len(ras)
    lab = np.arange(n0)
    extra_ra, extra_dec, extra_lab = [], [], []
    for c in case['comp']:
        i = c % n0
        extra_ra.append(ras[i])
        extra_dec.append(decs[i] + 0.6 * L)
        extra_lab.append(i)
        if case['second']:
            extra_ra.append(ras[i])
            extra_dec.append(decs[i] - 0.6 * L)
            extra_lab.append(i)
    ra = np.concatenate([ras, extra_ra])
    dec = np.concatenate([decs, extra_dec])
    lab = np.concatenate([lab, extra_lab]).astype('i8')
    order = np.random.RandomState(case['perm_seed']).permutation(len(ra))
    ra, dec, lab = ra[order], dec[order], lab[order]
    n = len(ra)
    ing, mult, first, nxt = call(spheregroup, ra, dec, L)
    with judge('many-points'):
        ing = np.asarray(ing).astype('i8')
        check(ing.shape == (n,), 'many:wrong-length')
        # same partition: the map expected label -> returned label is a bijection
        pairs = np.unique(np.stack([lab, ing], 1), axis=0)
        check(len(np.unique(pairs[:, 0])) == len(pairs) and len(np.unique(pairs[:, 1])) == len(pairs), 'many:partition-differs-from-construction',
              lambda: dict(n=n, groups_expected=int(len(np.unique(lab))), groups_returned=int(len(np.unique(ing)))))
        ng = int(ing.max()) + 1
        firsts = np.full(ng, n, dtype='i8')
        np.minimum.at(firsts, ing, np.arange(n))
        check(bool(np.all(np.diff(firsts) > 0)), 'many:groups-not-numbered-by-first-member')
        counts = np.bincount(ing, minlength=ng)
        check(bool(np.array_equal(np.asarray(mult)[:ng], counts)) and bool(np.all(np.asarray(mult)[ng:] == 0)), 'many:wrong-multiplicity')
        check(bool(np.array_equal(np.asarray(first)[:ng], firsts)) and bool(np.all(np.asarray(first)[ng:] == -1)), 'many:wrong-first-member')
        nx = np.asarray(nxt).astype('i8')
        ok = True
        for g in np.nonzero(counts > 1)[0][:200]:
            walk, j = [], int(firsts[g])
            while j != -1 and len(walk) <= counts[g]:
                walk.append(j)
                j = int(nx[j])
            ok = ok and sorted(walk) == np.nonzero(ing == g)[0].tolist()
        check(ok and bool(np.all(nx[counts[ing] == 1] == -1)), 'many:next-walk-wrong')
    note_label('points>32767' if n > 32767 else 'points<=32767')


SUBCHECKS = [
    SubCheck('fof_vs_unionfind', body, strategy=case_strategy, classify=classify, nontrivial=nontrivial,
             quick=7000, thorough=200000, shards=(16, 16),
             doc='partition == brute-force friends-of-friends components (tolerance band) + numbering, mult, first, next'),
    SubCheck('many_points', many_body, strategy=many_case, classify=lambda c: ['second:%s' % c['second']], nontrivial=lambda c, l: 'points>32767' in l,
             quick=3, thorough=48, shards=(3, 16), floor=0.0,
             doc='33 000 - 40 000 points (more provisional labels than a 16-bit counter holds): partition known by construction'),
    SubCheck('seam_ulp_sweep', body, kind='exhaustive', cases=seam_ulp_cases, classify=classify, nontrivial=lambda c, l: 'group-straddles-seam' in l,
             shards=(16, 16), floor=0.0,
             doc='bounded-exhaustive: a ring around the sky with a point 1 ulp below RA 360, for every number of RA chunks 5..420 (+ steps up to 2000)'),
    SubCheck('lattice_subsets', body, kind='exhaustive', cases=lattice_cases, classify=classify, nontrivial=nontrivial,
             shards=(16, 16), floor=0.0,
             doc='bounded-exhaustive: all subsets of a 3x3 lattice (pitch 0.9/1.1 L) at seam, chunk-corner and polar anchors'),
]
