"""C04 -- spherematch returns exactly the pairs closer than the match length."""
import math

import numpy as np
from hypothesis import strategies as st

from vk import SubCheck, Violation, call, judge, check, note_label
from props import geolib as G

PROPERTY = 'C04'
LEVEL = 'exploration'
RULE = ('Hypothesis point-set pairs (n1 2-30, n2 1-30) from labelled families: cluster of 0.3-12 match lengths, '
        'cluster on the RA 0/360 seam, near-polar (|Dec| up to 89.999), all-sky, lattice on half-chunk pitch (points on / '
        '1e-9 beside / inside cell edges), perturbed copy (pairs at 0-2 match lengths), shuffled chain; match length '
        '10^U(-4,1.5) deg; chunksize None or 4-30 x match length; maxmatch 0,1,2,3.  Oracle: brute-force separation matrix '
        'from unit vectors (atan2(|axb|, a.b)); pairs inside a 1e-7 relative band around the match length may go either way.  '
        'maxmatch=k checked as a validity predicate against the unlimited list of the same input.  Non-trivial = >=1 true '
        'pair and (pairs found from >=2 chunks | seam straddled | |Dec|>80 | k-limited).')
RULE += '  Also: match lengths up to 87 deg, slice-edge family (default chunk, ml 25-75 deg, partners across RA chunk edges at the +-30 deg slice edges), points down to 1 ulp from a pole, crowded fields with maxmatch >= 128.'
RULE += ' Round 9: probes also at arcsecond match lengths (1-2 arcsec, RA up to 340 deg); the RA edges are computed from the ends of the slice the way the cell index is.'
RULE += ' Round 5: sub-check grid_edge_probes (pairs across RA chunk edges at the polar edge of declination slices, grid read from the package).'
ASSUMPTIONS = ['chunksize >= 4 x matchlength (IDL documentation; what spheregroup enforces)',
               'grid bounded to <= 2e4 cells by enlarging the chunk size (memory of the chunk grid, not a property)',
               'first list has >= 2 points; RA in [0,360), |Dec| < 90 (down to 1e-13 deg from a pole)',
               'separations within 1e-7 relative (+1e-11 deg) of the match length are accepted either way']


@st.composite
def case_strategy(draw):
    ml = 10 ** (draw(st.one_of(st.integers(-40, 15), st.integers(-40, 19))) / 10.0) * (1 + 0.1 * draw(G.unitf))     # 1e-4 .. 87 deg
    fam = draw(st.sampled_from(['cluster', 'cluster', 'seam', 'seam', 'polar', 'allsky', 'lattice', 'copy', 'chain', 'polar-ring', 'polar-ring', 'pole-near',
                                'slice-edge', 'across-pole', 'across-pole']))
    if fam == 'slice-edge':
        ml = draw(st.sampled_from([45.0, 30.0, 25.0, 60.0, 52.0, 75.0])) * (1 + 0.02 * draw(G.unitf))
    if fam == 'polar-ring':
        ml = min(max(ml, 0.05), 3.0)
    if fam == 'across-pole':
        ml = min(max(ml, 0.02), 3.0)
    if fam == 'allsky':
        ml = max(ml, 0.5)
    pts = draw(G.point_sets(ml, families=[fam]))
    cs = draw(st.sampled_from([None, None, 4.0, 4.0, 5.0, 8.0, 16.0, 30.0])) if fam != 'slice-edge' else None
    ra1, dec1 = pts['ra1'], pts['dec1']
    eff = max(4.0 * ml, 0.1) if cs is None else cs * ml
    safe = G.safe_chunksize(ra1, dec1, eff)
    chunksize = None if (cs is None and safe == eff) else safe
    mm = draw(st.sampled_from([1, 1, 2, 3]))
    if draw(st.integers(0, 40)) == 0:
        # a crowded field: one first-list point with > 127 partners inside the match length and a large maxmatch
        # (counters of matches per point must not be narrower than the number of partners)
        k = draw(st.sampled_from([130, 140]))
        c = (pts['ra1'][0], pts['dec1'][0])
        cosd = max(math.cos(math.radians(c[1])), 1e-3)
        pts['ra2'] = [G._wrap(c[0] + 0.3 * ml * math.cos(0.7 * i) * (i / float(k)) / cosd) for i in range(k)]
        pts['dec2'] = [G._clipdec(c[1] + 0.3 * ml * math.sin(0.7 * i) * (i / float(k))) for i in range(k)]
        mm = draw(st.sampled_from([128, 129, 200]))
        pts['family'] = pts['family'] + '+crowded'
    order = draw(st.permutations(list(range(len(ra1)))))
    pts['ra1'] = [ra1[i] for i in order]
    pts['dec1'] = [dec1[i] for i in order]
    prior = draw(st.sampled_from([None, None, None, None, None, 0.05, 0.2, 0.5]))
    if prior is not None and chunksize is None:
        chunksize = safe        # explicit, so that both calls use the same grid
    return dict(pts, ml=ml, chunksize=chunksize, maxmatch=mm, prior=prior)


def pairs_of(m1, m2):
    return list(zip([int(x) for x in m1], [int(x) for x in m2]))


def body(case):
    from pydl.pydlutils.spheregroup import spherematch
    ra1, dec1 = np.array(case['ra1']), np.array(case['dec1'])
    ra2, dec2 = np.array(case['ra2']), np.array(case['dec2'])
    L = case['ml']
    S = G.sepmat(ra1, dec1, ra2, dec2)
    must = set(zip(*[x.tolist() for x in np.nonzero(G.below(S, L))]))
    may = set(zip(*[x.tolist() for x in np.nonzero(~G.above(S, L))]))
    if case.get('prior'):
        # a scan over the match length: an earlier call on the very same array objects with another length (same chunk size) must not
        # influence this one
        call(spherematch, ra1, dec1, ra2, dec2, case['prior'] * L, chunksize=case['chunksize'] if case['chunksize'] is not None else G.safe_chunksize(ra1, dec1, max(4.0 * L, 0.1)), maxmatch=0)
        note_label('after-a-call-with-another-length')
    m1, m2, d = call(spherematch, ra1, dec1, ra2, dec2, L, chunksize=case['chunksize'], maxmatch=0)
    with judge('unlimited'):
        got = pairs_of(m1, m2)
        d = np.asarray(d, dtype='f8')
        check(len(got) == len(d), 'length-mismatch', lambda: dict(pairs=len(got), dist=len(d)))
        check(len(set(got)) == len(got), 'pair-returned-twice', lambda: dict(pairs=got))
        missing = must - set(got)
        check(not missing, 'pair-missing', lambda: dict(missing=sorted(missing)[:5], sep=[float(S[p]) for p in sorted(missing)[:5]], L=L))
        extra = set(got) - may
        check(not extra, 'pair-too-far', lambda: dict(extra=sorted(extra)[:5], sep=[float(S[p]) for p in sorted(extra)[:5]], L=L))
        for (i, j), dist in zip(got, d):
            check(abs(dist - S[i, j]) <= 1e-6 * S[i, j] + 1e-11, 'wrong-distance', lambda: dict(pair=(i, j), got=float(dist), want=float(S[i, j])))
        check(bool(np.all(np.diff(d) >= 0)), 'not-sorted', lambda: dict(d=d.tolist()))
    # labels (observational)
    if must:
        note_label('has-pairs')
    if any(abs(a - b) > 180 for (i, j) in must for a, b in [(ra1[i], ra2[j])]):
        note_label('pair-straddles-seam')
    if must and max(abs(dec1[i]) for i, j in must) > 80:
        note_label('pair-near-pole')
    # maxmatch = k > 0: greedy validity against the unlimited answer of the same input
    k = case['maxmatch']
    r1, r2, rd = call(spherematch, ra1, dec1, ra2, dec2, L, chunksize=case['chunksize'], maxmatch=k)
    with judge('maxmatch'):
        full = dict(zip(got, d.tolist()))
        kept = pairs_of(r1, r2)
        rd = np.asarray(rd, dtype='f8')
        check(len(kept) == len(rd) and len(set(kept)) == len(kept), 'maxmatch:malformed', lambda: dict(kept=kept))
        check(set(kept) <= set(full), 'maxmatch:not-a-subset', lambda: dict(extra=sorted(set(kept) - set(full))))
        check(all(rd[n] == full[p] for n, p in enumerate(kept)), 'maxmatch:distance-changed', lambda: dict(kept=kept))
        check(bool(np.all(np.diff(rd) >= 0)), 'maxmatch:not-sorted', lambda: dict(d=rd.tolist()))
        c1, c2 = {}, {}
        for (i, j) in kept:
            c1[i] = c1.get(i, 0) + 1
            c2[j] = c2.get(j, 0) + 1
        check(max(list(c1.values()) + list(c2.values()) + [0]) <= k, 'maxmatch:point-used-too-often', lambda: dict(k=k, c1=c1, c2=c2))
        omitted = [p for p in got if p not in set(kept)]
        for (i, j) in omitted:
            dp = full[(i, j)]
            u1 = sum(1 for (a, b) in kept if a == i and full[(a, b)] <= dp)
            u2 = sum(1 for (a, b) in kept if b == j and full[(a, b)] <= dp)
            check(u1 >= k or u2 >= k, 'maxmatch:pair-dropped-without-cause', lambda: dict(pair=(i, j), dist=dp, k=k, used1=u1, used2=u2, kept=kept))
        if omitted:
            note_label('maxmatch-limited')
    # default maxmatch is 1
    if k == 1:
        q1, q2, qd = call(spherematch, ra1, dec1, ra2, dec2, L, chunksize=case['chunksize'])
        with judge('default'):
            check(sorted(pairs_of(q1, q2)) == sorted(kept) or len(q1) == len(kept), 'default-maxmatch-differs', lambda: dict(a=pairs_of(q1, q2), b=kept))
    # which chunks did the matches come from (observational, uses pydl's own grid)
    try:
        from pydl.pydlutils.spheregroup import chunks
        cs = case['chunksize'] if case['chunksize'] is not None else max(4.0 * L, 0.1)
        ch = chunks(ra1, dec1, cs)
        cells = set()
        for (i, j) in must:
            cells.add(ch.get(math.fmod(ra1[i] + ch.raOffset, 360.0), dec1[i]))
        if len(cells) >= 2:
            note_label('pairs-in->=2-chunks')
        if ch.decBounds[0] == -90.0 or ch.decBounds[-1] == 90.0:
            note_label('grid-touches-pole')
    except Exception:
        note_label('grid-introspection-failed')


# ------------------------------------------------------------------ probes placed on the edges of the chunk grid
@st.composite
def probe_case(draw):
    ml = draw(st.sampled_from([1.0, 0.3, 1.0 / 3600, 2.0, 5.0, 2.0 / 3600, 0.1, 10.0, 1e-3])) * (1 + 0.05 * draw(G.unitf))
    d0 = draw(st.sampled_from([83.0, 75.0, 60.0, -80.0, 30.0, -65.0, 86.0, 45.0]))
    return dict(ml=ml, d0=d0, ra0=draw(st.sampled_from([10.0, 200.0, 340.0, 95.0])), csf=draw(st.sampled_from([None, None, 4.0, 6.0])),
                width=draw(st.sampled_from([6.0, 10.0, 16.0])), fracs=[draw(st.sampled_from([0.9990, 0.9995, 0.9999, 0.998, 0.995, 1.001])) for _ in range(24)],
                eps=[draw(st.sampled_from([1e-9, 1e-6, 1e-3])) for _ in range(24)], tiny=draw(st.sampled_from([1e-9, 1e-6, 1e-4])),
                inward=[draw(st.sampled_from([0.0, 0.0, 0.03, 0.1, 0.2])) for _ in range(24)])


def probe_body(case):
    """The chunk grid of the package itself is asked where its declination slices and RA chunks end.  First-list points are put just
    inside a chunk at the most polar declination of its slice, second-list partners at the same declination across the RA edge of
    the chunk, 0.995 - 1.001 match lengths away: the one place where the RA margin of the chunk assignment has no slack.  The
    verdict comes from the brute-force separations as everywhere else; the grid only tells where to look."""
    from pydl.pydlutils.spheregroup import spherematch, chunks
    ml, d0 = case['ml'], case['d0']
    cs = None if case['csf'] is None else case['csf'] * ml
    chunk = max(4.0 * ml, 0.1) if cs is None else cs
    cosd = math.cos(math.radians(d0))
    wra = min(case['width'] * chunk / cosd, 300.0)
    # anchors fix the extent of the grid: the probes lie strictly inside it, so they do not move it
    anchors = [(G._wrap(case['ra0']), d0 - 2.6 * chunk), (G._wrap(case['ra0'] + wra), d0 + 2.6 * chunk),
               (G._wrap(case['ra0'] + 0.5 * wra), d0)]
    anchors = [(r, max(-89.0, min(89.0, d))) for r, d in anchors]
    a_ra, a_dec = np.array([p[0] for p in anchors]), np.array([p[1] for p in anchors])
    p1, p2 = [], []
    try:
        ch = chunks(a_ra, a_dec, chunk)
        nd = int(ch.nDec)
        k = 0
        for i in range(nd):
            lo, hi = float(ch.decBounds[i]), float(ch.decBounds[i + 1])
            if abs(lo) >= 90 or abs(hi) >= 90 or int(ch.nRa[i]) < 3:
                continue
            polar = hi if abs(hi) > abs(lo) else lo
            inward = -1.0 if polar == hi else 1.0
            dec = polar + inward * case['tiny']
            if not (a_dec.min() < dec < a_dec.max()):
                continue
            for j in range(1, int(ch.nRa[i])):
                if k >= len(case['fracs']):
                    break
                # where the package's own cell index changes: computed from the two ends of the slice (as the index is), not read
                # from the stored list of boundaries - the margin search has to agree with the former
                b0, bn = float(ch.raBounds[i][0]), float(ch.raBounds[i][int(ch.nRa[i])])
                edge = b0 + (bn - b0) * j / float(int(ch.nRa[i])) - float(ch.raOffset)
                side = 1.0 if k % 2 == 0 else -1.0
                r1 = edge + side * case['eps'][k]
                f = case['fracs'][k]
                # the partner at the same declination, or a fraction of the match length nearer the equator (the first-list point is
                # then the more polar of the two): hav(s) = hav(d1 - d2) + cos d1 cos d2 hav(dRA)
                dec2_ = dec + inward * case.get('inward', [0.0] * 24)[k] * ml
                hs = math.sin(math.radians(f * ml) / 2) ** 2 - math.sin(math.radians(dec - dec2_) / 2) ** 2
                den = math.cos(math.radians(dec)) * math.cos(math.radians(dec2_))
                if hs <= 0 or hs >= den:
                    continue
                r2 = r1 - side * 2 * math.degrees(math.asin(math.sqrt(hs / den)))
                # keep the probes inside the RA extent of the anchors
                lo_ra, hi_ra = case['ra0'], case['ra0'] + wra
                if not (lo_ra < r1 < hi_ra):
                    continue
                p1.append((G._wrap(r1), dec))
                p2.append((G._wrap(r2), dec2_))
                k += 1
    except Exception:
        note_label('grid-introspection-failed')
    if not p1:
        note_label('no-probes')
        return
    note_label('probes:%d+' % (len(p1) // 5 * 5))
    ra1 = np.array([p[0] for p in anchors + p1])
    dec1 = np.array([p[1] for p in anchors + p1])
    ra2 = np.array([p[0] for p in p2])
    dec2 = np.array([p[1] for p in p2])
    S = G.sepmat(ra1, dec1, ra2, dec2)
    must = set(zip(*[x.tolist() for x in np.nonzero(G.below(S, ml))]))
    may = set(zip(*[x.tolist() for x in np.nonzero(~G.above(S, ml))]))
    m1, m2, d = call(spherematch, ra1, dec1, ra2, dec2, ml, chunksize=cs, maxmatch=0)
    with judge('probes'):
        got = set(pairs_of(m1, m2))
        missing = must - got
        check(not missing, 'pair-missing', lambda: dict(missing=sorted(missing)[:5], sep=[float(S[p]) for p in sorted(missing)[:5]], L=ml,
                                                         p1=[(float(ra1[i]), float(dec1[i])) for i, j in sorted(missing)[:3]], p2=[(float(ra2[j]), float(dec2[j])) for i, j in sorted(missing)[:3]]))
        check(not (got - may), 'pair-too-far', lambda: dict(extra=sorted(got - may)[:5]))
    if must:
        note_label('has-pairs')


def classify(case):
    return ['family:' + case['family'].replace('+crowded', ''), 'crowded' if 'crowded' in case['family'] else 'sparse', 'chunksize:' + ('default' if case['chunksize'] is None else 'explicit'),
            'maxmatch:%d' % case['maxmatch'], 'ml:1e%d' % math.floor(math.log10(case['ml']))]


def nontrivial(case, labels):
    return 'has-pairs' in labels and bool({'pairs-in->=2-chunks', 'pair-straddles-seam', 'pair-near-pole', 'maxmatch-limited'} & set(labels))


def seam_ulp_cases(tier):
    """round 11 (the C05 sweep of round 9, for spherematch): a first list that rings the sky - so no RA offset avoids the seam and the slices
    embrace 0..360 - and holds the largest double below 360, for every number of RA cells from 5 to ~420 (thorough: on to 2000 in steps).
    The cell index of that point, however it is computed, must stay below the number of cells; its partners sit just across the seam."""
    below = float(np.nextafter(360.0, 0.0))
    ks = list(range(5, 421)) + (list(range(421, 2000, 7)) if tier == 'thorough' else list(range(421, 1200, 37)))
    for dec0 in (0.0, 40.0):
        cosd = math.cos(math.radians(dec0))
        for k in ks:
            cs = 360.0 * cosd / (k + 0.5)
            L = min(0.01, cs / 5.0)
            for last, first in ((below, 0.25 * L / cosd), (360.0 - 1e-13, 0.0)):
                ra1 = [last, 60.0, 120.0, 180.0, 240.0, 300.0, first]
                dec1 = [dec0, dec0, dec0 - 0.2 * L, dec0, dec0 + 0.1 * L, dec0, dec0 + 0.3 * L]
                ra2 = [first, 0.5 * L / cosd, last, 180.0 + 0.6 * L / cosd, 300.0 + 2.0 * L / cosd]
                dec2 = [dec0 + 0.3 * L, dec0, dec0 - 0.4 * L, dec0, dec0]
                yield dict(family='seam-ulp', ra1=ra1, dec1=dec1, ra2=ra2, dec2=dec2, ml=L, chunksize=cs, maxmatch=1 + k % 2)


SUBCHECKS = [
    SubCheck('seam_ulp_sweep', body, kind='exhaustive', cases=seam_ulp_cases, classify=lambda c: ['dec:%d' % c['dec1'][0]], nontrivial=lambda c, l: 'has-pairs' in l,
             shards=(8, 16), floor=0.0, doc='a first list ringing the sky with a point 1 ulp below RA 360, for every number of RA cells 5..420 (bounded-exhaustive)'),
    SubCheck('grid_edge_probes', probe_body, strategy=probe_case, classify=lambda c: ['ml:%.0e' % c['ml'], 'dec:%d' % c['d0']], nontrivial=lambda c, l: 'has-pairs' in l,
             quick=1200, thorough=40000, shards=(8, 16), floor=0.0,
             doc='pairs 0.995-1.001 match lengths apart placed across the RA chunk edges at the polar edge of declination slices (grid read from the package)'),
    SubCheck('match_vs_bruteforce', body, strategy=case_strategy, classify=classify, nontrivial=nontrivial,
             quick=8000, thorough=400000, shards=(16, 16),
             doc='unlimited match == brute force pair set (tolerance band), distances, order; maxmatch=k greedy validity'),
]
