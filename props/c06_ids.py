"""C06 -- SDSS objID / specObjID packing is a bijection with the documented bit layout."""
import numpy as np
from hypothesis import strategies as st

from vk import SubCheck, Violation, call, judge, check, note_label

PROPERTY = 'C06'
LEVEL = 'exploration'
EXHAUSTIVE = False
RULE = ('per-field exhaustive sweeps (every value of one field, the other fields all-minimum / '
        'all-maximum, array convention, chunks of <=4096 values = one case; all 16384 run2d values '
        'also through the vN_M_P string form) + Hypothesis field tuples with boundary bias run through '
        'the scalar, int64-array and decimal-string conventions + generated out-of-range / '
        'inconsistent calls.  Oracle: Python big-int shifts of the documented layout.  '
        'Non-trivial = at least one field in the upper half of its range (sweeps: chunk contains such '
        'values); distinct = distinct case hash.')
RULE += '  Also: per-field dtypes mixed (u8/i8/i4/u4/big-endian), 2-D and bytes id arrays for unwrap_objid.'
ASSUMPTIONS = ['objID field arrays are integer arrays of any width that holds the values (int64, and since D43 also int8..int32, unsigned, big-endian, mixed per field); specObjID field arrays are int64 and also int32/uint32/uint64 (FITS columns are 32-bit; every field value fits); unwrap gets uint64 or strings',
               'run2d strings are exactly vN_M_P with 5<=N<=6, 0<=M,P<=99 (documented form)',
               'scalar convention = every argument a Python int; array convention = every argument an array']

OBJ_FIELDS = [('skyversion', 0, 15, 59), ('rerun', 0, 2047, 48), ('run', 0, 65535, 32),
              ('camcol', 1, 6, 29), ('firstfield', 0, 1, 28), ('field', 0, 4095, 16),
              ('objnum', 0, 65535, 0)]
SPEC_FIELDS = [('plate', 0, 16383, 50), ('fiber', 0, 4095, 38), ('mjd', 50000, 50000 + 16383, 24),
               ('run2d', 0, 16383, 10), ('line', 0, 1023, 0)]


def obj_oracle(v):
    return sum(int(v[n]) << sh for n, lo, hi, sh in OBJ_FIELDS)


def spec_oracle(v):
    return ((int(v['plate']) << 50) | (int(v['fiber']) << 38) | ((int(v['mjd']) - 50000) << 24) |
            (int(v['run2d']) << 10) | int(v['line']))


def run2d_text(r):
    return 'v%d_%d_%d' % (r // 10000 + 5, (r % 10000) // 100, r % 100)


def _fns():
    from pydl.pydlutils.sdss import sdss_objid, sdss_specobjid, unwrap_specobjid
    from pydl.photoop.photoobj import unwrap_objid
    return sdss_objid, sdss_specobjid, unwrap_specobjid, unwrap_objid


# ---------------------------------------------------------------- sweeps
def sweep_cases(tier):
    for which, fields in (('obj', OBJ_FIELDS), ('spec', SPEC_FIELDS)):
        for name, lo, hi, sh in fields:
            for others in ('min', 'max'):
                for a in range(lo, hi + 1, 4096):
                    yield dict(which=which, field=name, others=others, lo=a, hi=min(hi, a + 4095))
    for others in ('min', 'max'):
        for a in range(0, 16384, 512):
            yield dict(which='spec_run2d_string', field='run2d', others=others, lo=a, hi=a + 511)
    for a in range(0, 1024, 512):
        for others in ('min', 'max'):
            yield dict(which='spec_index', field='index', others=others, lo=a, hi=a + 511)


def sweep_body(case):
    sdss_objid, sdss_specobjid, unwrap_specobjid, unwrap_objid = _fns()
    vals = np.arange(case['lo'], case['hi'] + 1, dtype=np.int64)
    n = len(vals)
    which = case['which']
    fields = OBJ_FIELDS if which == 'obj' else SPEC_FIELDS
    cols = {}
    for name, lo, hi, sh in fields:
        cols[name] = np.full(n, lo if case['others'] == 'min' else hi, dtype=np.int64)
    if which == 'spec_index':
        cols['index'] = vals
        cols['line'] = None
    else:
        cols[case['field']] = vals
    if which == 'obj':
        got = call(sdss_objid, cols['run'], cols['camcol'], cols['field'], cols['objnum'],
                   rerun=cols['rerun'], skyversion=cols['skyversion'], firstfield=cols['firstfield'])
        with judge('objid-array'):
            check(got.shape == (n,), 'objid-shape', str(got.shape))
            exp = [obj_oracle({k: int(cols[k][i]) for k in cols}) for i in range(n)]
            bad = [i for i in range(n) if int(got[i]) != exp[i]]
            check(not bad, 'objid-layout', lambda: dict(
                fields={k: int(cols[k][bad[0]]) for k in cols}, got=int(got[bad[0]]), want=exp[bad[0]]))
        un = call(unwrap_objid, got)
        with judge('unwrap-objid'):
            for k, uk in (('skyversion', 'skyversion'), ('rerun', 'rerun'), ('run', 'run'),
                          ('camcol', 'camcol'), ('firstfield', 'firstfield'), ('field', 'frame'),
                          ('objnum', 'id')):
                check(np.array_equal(np.asarray(un[uk], dtype=np.int64), cols[k]), 'unwrap-objid-field:' + k,
                      lambda: dict(case=case))
        return
    # specObjID
    if which == 'spec_run2d_string':
        for i in range(n):
            r = int(vals[i])
            v = {k: int(cols[k][i]) for k in ('plate', 'fiber', 'mjd', 'line')}
            got = call(sdss_specobjid, v['plate'], v['fiber'], v['mjd'], run2d_text(r), line=v['line'])
            v['run2d'] = r
            with judge('specobjid-string'):
                check(int(got[0]) == spec_oracle(v), 'specobjid-layout-run2d-string',
                      lambda: dict(fields=v, got=int(got[0]), want=spec_oracle(v)))
            un = call(unwrap_specobjid, got)
            with judge('unwrap-spec-string'):
                check(str(un.run2d[0]) == run2d_text(r), 'unwrap-run2d-text',
                      lambda: dict(run2d=r, got=str(un.run2d[0]), want=run2d_text(r)))
        return
    if which == 'spec_index':
        got = call(sdss_specobjid, cols['plate'], cols['fiber'], cols['mjd'], cols['run2d'], index=vals)
        low = vals
    else:
        got = call(sdss_specobjid, cols['plate'], cols['fiber'], cols['mjd'], cols['run2d'], line=cols['line'])
        low = cols['line']
    with judge('specobjid-array'):
        check(got.shape == (n,), 'specobjid-shape', str(got.shape))
        exp = [spec_oracle(dict(plate=cols['plate'][i], fiber=cols['fiber'][i], mjd=cols['mjd'][i],
                                run2d=cols['run2d'][i], line=low[i])) for i in range(n)]
        bad = [i for i in range(n) if int(got[i]) != exp[i]]
        check(not bad, 'specobjid-layout', lambda: dict(i=bad[0], got=int(got[bad[0]]), want=exp[bad[0]], case=case))
    un = call(unwrap_specobjid, got.astype(np.uint64), run2d_integer=True, specLineIndex=(which == 'spec_index'))
    with judge('unwrap-specobjid'):
        for k in ('plate', 'fiber', 'mjd', 'run2d'):
            check(np.array_equal(np.asarray(un[k], dtype=np.int64), cols[k]), 'unwrap-spec-field:' + k,
                  lambda: dict(case=case))
        lk = 'index' if which == 'spec_index' else 'line'
        check(np.array_equal(np.asarray(un[lk], dtype=np.int64), low), 'unwrap-spec-field:' + lk, lambda: dict(case=case))


def sweep_nontrivial(case, labels):
    fields = dict((f[0], f) for f in OBJ_FIELDS + SPEC_FIELDS)
    fields['index'] = ('index', 0, 1023, 0)
    name, lo, hi, sh = fields[case['field']]
    return case['others'] == 'max' or case['hi'] > (lo + hi) // 2


# ---------------------------------------------------------------- tuples
def field_value(lo, hi):
    mid = (lo + hi) // 2
    edge = sorted(set(x for x in (lo, lo + 1, mid, mid + 1, hi - 1, hi) if lo <= x <= hi))
    return st.one_of(st.sampled_from(edge), st.integers(lo, hi))


def tuple_strategy(fields):
    return st.fixed_dictionaries({n: field_value(lo, hi) for n, lo, hi, sh in fields})


def obj_strategy():
    def defaults(rows):
        # the optional fields at their default values (rerun 301, skyversion 2, firstfield 0) in every row
        return [dict(r, rerun=301, skyversion=2, firstfield=0) for r in rows]
    base = st.lists(tuple_strategy(OBJ_FIELDS), min_size=1, max_size=5)
    def early(rows):
        # early runs (94, 125, ...) fit an 8-bit column (round 9)
        return [dict(r, run=r['run'] % 256) for r in defaults(rows)]
    return st.one_of(base, base, base.map(defaults), base.map(early)).map(lambda rows: dict(rows=rows))


def obj_body(case):
    sdss_objid, sdss_specobjid, unwrap_specobjid, unwrap_objid = _fns()
    rows = case['rows']
    exp = [obj_oracle(r) for r in rows]
    scal = []
    for r in rows:
        g = call(sdss_objid, r['run'], r['camcol'], r['field'], r['objnum'], rerun=r['rerun'],
                 skyversion=r['skyversion'], firstfield=r['firstfield'])
        with judge('objid-scalar'):
            check(np.shape(g) == (1,), 'objid-scalar-shape', str(np.shape(g)))
            scal.append(int(g[0]))
    check(scal == exp, 'objid-layout-scalar', lambda: dict(rows=rows, got=scal, want=exp))
    arr = {n: np.array([r[n] for r in rows], dtype=np.int64) for n, lo, hi, sh in OBJ_FIELDS}
    keep = {n: a.copy() for n, a in arr.items()}
    g = call(sdss_objid, arr['run'], arr['camcol'], arr['field'], arr['objnum'], rerun=arr['rerun'],
             skyversion=arr['skyversion'], firstfield=arr['firstfield'])
    # the optional fields given explicitly as the scalars that are their defaults, next to arrays for the rest
    if all(r['rerun'] == 301 and r['skyversion'] == 2 and r['firstfield'] == 0 for r in rows):
        g2 = call(sdss_objid, arr['run'], arr['camcol'], arr['field'], arr['objnum'], rerun=301, skyversion=2, firstfield=0)
        g3 = call(sdss_objid, arr['run'], arr['camcol'], arr['field'], arr['objnum'])
        with judge('objid-default-scalars'):
            check([int(x) for x in g2] == exp and [int(x) for x in g3] == exp, 'objid-explicit-default-scalars-differ', lambda: dict(got=[int(x) for x in g2], want=exp))
        note_label('default-scalars-with-arrays')
    with judge('objid-array'):
        check(all(np.array_equal(arr[n], keep[n]) for n in arr), 'objid-modifies-its-input-arrays')
        check([int(x) for x in g] == exp, 'objid-scalar-vs-array', lambda: dict(rows=rows, got=[int(x) for x in g], want=exp))
    # every field array in the narrowest (or a mixed) integer type that holds its values: photoObj tables store RUN as int16/int32,
    # CAMCOL as uint8, FIELD and ID as int16 (D43: the fields were shifted in their own width and the upper bits silently lost)
    def narrowest(vals, signed):
        for dt in (('i1', 'i2', 'i4', 'i8') if signed else ('u1', 'u2', 'u4', 'u8')):
            if np.iinfo(dt).min <= min(vals) and max(vals) <= np.iinfo(dt).max:
                return dt
    for label, pick in (('narrowest-signed', lambda v, i: narrowest(v, True)), ('narrowest-unsigned', lambda v, i: narrowest(v, False)),
                        ('int32', lambda v, i: 'i4'), ('mixed', lambda v, i: ('>i4', 'u8', 'i4', narrowest(v, True), 'u4', 'i8', narrowest(v, False))[i])):
        narr = {n: np.array([r[n] for r in rows], dtype=pick([r[n] for r in rows], i)) for i, (n, lo, hi, sh) in enumerate(OBJ_FIELDS)}
        gn = call(sdss_objid, narr['run'], narr['camcol'], narr['field'], narr['objnum'], rerun=narr['rerun'],
                  skyversion=narr['skyversion'], firstfield=narr['firstfield'])
        with judge('objid-array-' + label):
            check([int(x) for x in np.ravel(gn)] == exp, 'objid-narrow-integer-arrays-differ', lambda: dict(rows=rows, got=[int(x) for x in np.ravel(gn)], want=exp,
                                                                                                      dtypes={n: str(a.dtype) for n, a in narr.items()}))
            check(np.asarray(gn).dtype == np.int64, 'objid-array-dtype', lambda: dict(got=str(np.asarray(gn).dtype), dtypes=label))
        if all(r['rerun'] == 301 and r['skyversion'] == 2 and r['firstfield'] == 0 for r in rows):
            # the same narrow arrays with the optional fields left at / given as their scalar defaults
            for kw in ({}, dict(rerun=301), dict(skyversion=2, firstfield=0)):
                gd = call(sdss_objid, narr['run'], narr['camcol'], narr['field'], narr['objnum'], **kw)
                with judge('objid-array-defaults-' + label):
                    check([int(x) for x in np.ravel(gd)] == exp, 'objid-narrow-integer-arrays-with-defaults-differ',
                          lambda: dict(rows=rows, got=[int(x) for x in np.ravel(gd)], want=exp, kw=kw, dtypes={n: str(a.dtype) for n, a in narr.items()}))
    note_label('narrow-dtypes')
    n = len(exp)
    shp = (n, 1) if n % 2 else (2, n // 2)
    for label, ids in (('int64', np.array(exp, dtype=np.int64)), ('str', np.array([str(e) for e in exp])),
                       ('int64-bigendian', np.array(exp, dtype=np.int64).astype('>i8')),
                       ('int64-2d', np.array(exp, dtype=np.int64).reshape(shp)), ('str-2d', np.array([str(e) for e in exp]).reshape(shp)),
                       ('bytes', np.array([str(e).encode() for e in exp]))):
        un = call(unwrap_objid, ids)
        with judge('unwrap-objid-' + label):
            check(np.shape(un) == np.shape(ids), 'unwrap-objid-%s:shape' % label, lambda: dict(got=np.shape(un), want=np.shape(ids)))
            un = un.ravel()
            for k, uk in (('skyversion', 'skyversion'), ('rerun', 'rerun'), ('run', 'run'), ('camcol', 'camcol'),
                          ('firstfield', 'firstfield'), ('field', 'frame'), ('objnum', 'id')):
                got = [int(x) for x in un[uk]]
                check(got == [r[k] for r in rows], 'unwrap-objid-%s:%s' % (label, k),
                      lambda: dict(rows=rows, got=got))


def upper_half(fields):
    def f(case, labels):
        for r in case['rows']:
            for n, lo, hi, sh in fields:
                if n in r and r[n] > (lo + hi) // 2:
                    return True
        return False
    return f


def obj_classify(case):
    out = ['rows:%d' % min(len(case['rows']), 3)]
    for r in case['rows']:
        for n, lo, hi, sh in OBJ_FIELDS:
            if r[n] == hi:
                out.append('max:' + n)
            if r[n] == lo:
                out.append('min:' + n)
    return out


def spec_strategy():
    row = tuple_strategy(SPEC_FIELDS)
    # every field of a specObjID fits in 15 bits except MJD (< 66384): int32/uint32/uint16-safe values only where they fit
    return st.fixed_dictionaries(dict(rows=st.lists(row, min_size=1, max_size=5),
                                      low=st.sampled_from(['line', 'index', 'none']),
                                      dtype=st.sampled_from(['i4', 'u4', 'i8', 'u8']),
                                      mixed=st.lists(st.sampled_from(['u8', 'i8', 'i4', 'u4', '>i4', '>u8']), min_size=5, max_size=5)))


def spec_body(case):
    sdss_objid, sdss_specobjid, unwrap_specobjid, unwrap_objid = _fns()
    rows = [dict(r) for r in case['rows']]
    low = case['low']
    if low == 'none':
        for r in rows:
            r['line'] = 0
    exp = [spec_oracle(r) for r in rows]

    def kw(v):
        return {} if low == 'none' else {low: v}
    scal, scal_s = [], []
    for r in rows:
        g = call(sdss_specobjid, r['plate'], r['fiber'], r['mjd'], r['run2d'], **kw(r['line']))
        with judge('specobjid-scalar'):
            check(np.shape(g) == (1,), 'specobjid-scalar-shape', str(np.shape(g)))
            scal.append(int(g[0]))
        g = call(sdss_specobjid, r['plate'], r['fiber'], r['mjd'], run2d_text(r['run2d']), **kw(r['line']))
        with judge('specobjid-scalar-string'):
            scal_s.append(int(g[0]))
        g = call(sdss_specobjid, r['plate'], r['fiber'], r['mjd'], str(r['run2d']), **kw(r['line']))
        with judge('specobjid-scalar-intstring'):
            check(int(g[0]) == spec_oracle(r), 'specobjid-layout-run2d-intstring', lambda: dict(row=r, got=int(g[0])))
    check(scal == exp, 'specobjid-layout-scalar', lambda: dict(rows=rows, got=scal, want=exp))
    check(scal_s == exp, 'specobjid-layout-run2d-string', lambda: dict(rows=rows, got=scal_s, want=exp))
    mixed = case.get('mixed') or ['i8'] * 5
    for dt in (np.int64, np.dtype(case.get('dtype', 'i8')), 'mixed'):
        if dt == 'mixed':       # every field array with a dtype of its own (columns of different tables)
            arr = {n: np.array([r[n] for r in rows], dtype=mixed[i]) for i, (n, lo, hi, sh) in enumerate(SPEC_FIELDS)}
        else:
            arr = {n: np.array([r[n] for r in rows], dtype=dt) for n, lo, hi, sh in SPEC_FIELDS}
        keep = {n: a.copy() for n, a in arr.items()}
        g = call(sdss_specobjid, arr['plate'], arr['fiber'], arr['mjd'], arr['run2d'], **kw(arr['line']))
        with judge('specobjid-array'):
            check(all(np.array_equal(arr[n], keep[n]) for n in arr), 'specobjid-modifies-its-input-arrays',
                  lambda: dict(dtype=str(dt), changed=[n for n in arr if not np.array_equal(arr[n], keep[n])]))
            check(np.asarray(g).dtype == np.uint64, 'specobjid-array-dtype', lambda: dict(got=str(np.asarray(g).dtype)))
            check([int(x) for x in g] == exp, 'specobjid-scalar-vs-array',
                  lambda: dict(rows=rows, got=[int(x) for x in g], want=exp, dtype=str(dt)))
    for label, ids in (('uint64', np.array(exp, dtype=np.uint64)), ('str', np.array([str(e) for e in exp])),
                       ('uint64-bigendian', np.array(exp, dtype=np.uint64).astype('>u8'))) + (
                      # round 11: the IDs of a (2, n/2) table, as unwrap_objid is asked too: element by element the same answers
                      (('uint64-2d', np.array(exp, dtype=np.uint64).reshape(2, -1)), ('str-2d', np.array([str(e) for e in exp]).reshape(2, -1))) if len(exp) >= 2 and len(exp) % 2 == 0 else ()):
        for as_int in (True, False):
            un = call(unwrap_specobjid, ids, run2d_integer=as_int, specLineIndex=(low == 'index'))
            with judge('unwrap-spec-' + label):
                check(np.shape(un) == np.shape(ids), 'unwrap-spec-%s:shape' % label, lambda: dict(got=np.shape(un), want=np.shape(ids)))
                un = np.ravel(un)
                for k in ('plate', 'fiber', 'mjd'):
                    got = [int(x) for x in un[k]]
                    check(got == [r[k] for r in rows], 'unwrap-spec-%s:%s' % (label, k), lambda: dict(rows=rows, got=got))
                lk = 'index' if low == 'index' else 'line'
                got = [int(x) for x in un[lk]]
                check(got == [r['line'] for r in rows], 'unwrap-spec-%s:%s' % (label, lk), lambda: dict(rows=rows, got=got))
                if as_int:
                    got = [int(x) for x in un['run2d']]
                    check(got == [r['run2d'] for r in rows], 'unwrap-spec-%s:run2d-int' % label, lambda: dict(rows=rows, got=got))
                else:
                    got = [str(x) for x in un['run2d']]
                    check(got == [run2d_text(r['run2d']) for r in rows], 'unwrap-spec-%s:run2d-text' % label,
                          lambda: dict(rows=rows, got=got))


def spec_classify(case):
    out = ['rows:%d' % min(len(case['rows']), 3), 'low:' + case['low'], 'dtype:' + case.get('dtype', 'i8')]
    for r in case['rows']:
        for n, lo, hi, sh in SPEC_FIELDS:
            if r[n] == hi:
                out.append('max:' + n)
            if r[n] == lo:
                out.append('min:' + n)
    return out


# ---------------------------------------------------------------- refusals
def reject_strategy():
    def bad_value(lo, hi):
        # (round 11: also values no 64-bit integer holds - still a ValueError, not an OverflowError from the conversion)
        return st.one_of(st.sampled_from([lo - 1, hi + 1, -1 if lo > 0 else lo - 1, hi + 2, 2 * (hi + 1), 2 ** 31, -2 ** 31, 2 ** 63, 2 ** 64, -2 ** 63 - 1, 10 ** 30]),
                         st.integers(hi + 1, 2 ** 40), st.integers(-2 ** 40, lo - 1))

    @st.composite
    def strat(draw):
        which = draw(st.sampled_from(['obj', 'spec']))
        fields = OBJ_FIELDS if which == 'obj' else SPEC_FIELDS
        mode = draw(st.sampled_from(['range', 'range', 'range', 'length', 'both-low', 'run2d-string', 'shape'] if which == 'spec'
                                    else ['range', 'range', 'length', 'shape']))
        n = draw(st.integers(1, 4))
        rows = [draw(tuple_strategy(fields)) for _ in range(n)]
        conv = draw(st.sampled_from(['scalar', 'array', 'array']))
        if conv == 'array' and n < 2:
            rows = rows + [draw(tuple_strategy(fields))]        # arrays mix valid and invalid elements
            n = 2
        case = dict(which=which, mode=mode, rows=rows, conv=conv, adt=draw(st.sampled_from(['i8', 'i8', 'narrow-signed', 'narrow-unsigned'])))
        if mode == 'both-low':
            case['lowpat'] = draw(st.sampled_from(['same', 'index-zero', 'zeros', 'line-zero', 'alternate']))
        if mode == 'range':
            name, lo, hi, sh = draw(st.sampled_from(fields))
            case['field'] = name
            case['row'] = draw(st.integers(0, n - 1))
            case['value'] = draw(bad_value(lo, hi))
            if abs(case['value']) >= 2 ** 63:
                case['conv'] = 'scalar'          # no integer array holds it
            if name == 'mjd' and draw(st.integers(0, 1)) == 0:
                # an MJD far below 50000 (a reduced Julian date given by mistake, a zero from an empty table cell)
                case['value'] = draw(st.sampled_from([0, 1, 100, 847, 848, 5359, 15000, 16383, 49999]))
                case['adt'] = draw(st.sampled_from(['narrow-unsigned', 'narrow-unsigned', 'narrow-signed', 'i8']))
                if case['adt'] == 'narrow-unsigned':
                    # MJDs up to 65535 fit an unsigned 16-bit column
                    case['conv'] = 'array'
                    for r in rows:
                        r['mjd'] = min(r['mjd'], 65535)
            if which == 'spec' and name == 'line':
                case['low'] = draw(st.sampled_from(['line', 'index']))
        elif mode == 'run2d-string':
            # vN_M_P whose documented value (N-5)*10000+M*100+P is outside 0..16383
            N = draw(st.sampled_from([0, 1, 3, 4, 6, 7, 9, 12]))
            M = draw(st.integers(64 if N == 6 else 0, 99))
            case['text'] = 'v%d_%d_%d' % (N, M, draw(st.integers(0, 99)))
            case['conv'] = 'scalar'
            case['row'] = 0
        elif mode == 'length':
            case['field'] = draw(st.sampled_from([f[0] for f in fields]))
            case['extra'] = draw(st.integers(1, 3))
            case['conv'] = 'array'
            if draw(st.booleans()):
                # round 11: the odd array is SHORTER than the others, in particular a one-element array next to n > 1 objects
                # (a flag that "describes the whole segment"): no broadcasting, it is an inconsistent length
                while len(case['rows']) < 3:
                    case['rows'] = case['rows'] + [draw(tuple_strategy(fields))]
                case['short'] = draw(st.sampled_from([1, 1, 2]))
        elif mode == 'shape':
            # as many elements as the others but not the same shape: one field handed over as a column vector
            case['field'] = draw(st.sampled_from([f[0] for f in fields if f[0] not in ('run', 'plate')]))
            case['conv'] = 'array'
            if len(rows) < 2:
                case['rows'] = rows + [draw(tuple_strategy(fields))]
        return case
    return strat()


def reject_body(case):
    sdss_objid, sdss_specobjid, unwrap_specobjid, unwrap_objid = _fns()
    rows = [dict(r) for r in case['rows']]
    which, mode = case['which'], case['mode']
    fields = OBJ_FIELDS if which == 'obj' else SPEC_FIELDS
    if mode == 'range':
        rows[case['row']][case['field']] = case['value']
    if case['conv'] == 'scalar':
        rows = [rows[case.get('row', 0)]]
        args = {n: rows[0][n] for n, lo, hi, sh in fields}
        if mode == 'run2d-string':
            args['run2d'] = case['text']
    else:
        def dtype_for(vals):
            # round 9: field arrays in the narrowest integer type that holds their values (table columns are 16 / 32 bits wide);
            # the out-of-range value is representable in that type, so it must be refused, not wrapped
            kinds = dict(i8=('i8',)).get(case.get('adt', 'i8')) or (('i2', 'i4', 'i8') if case['adt'] == 'narrow-signed' or min(vals) < 0 else ('u2', 'u4', 'u8'))
            for dt in kinds:
                if np.iinfo(dt).min <= min(vals) and max(vals) <= np.iinfo(dt).max:
                    return dt
            return 'i8'
        args = {n: np.array([r[n] for r in rows], dtype=dtype_for([r[n] for r in rows])) for n, lo, hi, sh in fields}
        if mode == 'length':
            f = case['field']
            if case.get('short'):
                args[f] = args[f][:case['short']].copy()
            else:
                args[f] = np.concatenate([args[f], args[f][:1].repeat(case['extra'])])
        if mode == 'shape':
            args[case['field']] = args[case['field']].reshape(-1, 1)
    try:
        if which == 'obj':
            got = call(sdss_objid, args['run'], args['camcol'], args['field'], args['objnum'], rerun=args['rerun'],
                       skyversion=args['skyversion'], firstfield=args['firstfield'], allowed=(ValueError,))
        else:
            if mode == 'both-low':
                # both keywords given is refused whatever their values (round 11: also when one or both are 0 - element by element
                # at most one of the two non-zero - which reads like "only one was really given")
                pat = case.get('lowpat', 'same')
                ln = np.array(args['line'], copy=True) if isinstance(args['line'], np.ndarray) else args['line']
                ix = np.array(args['line'], copy=True) if isinstance(args['line'], np.ndarray) else args['line']
                if pat == 'zeros':
                    ln, ix = ln * 0, ix * 0
                elif pat == 'index-zero':
                    ix = ix * 0
                elif pat == 'line-zero':
                    ln = ln * 0
                elif pat == 'alternate' and isinstance(ln, np.ndarray):
                    ln[0::2] = 0
                    ix[1::2] = 0
                kw = dict(line=ln, index=ix)
            else:
                kw = {case.get('low', 'line'): args['line']}
            got = call(sdss_specobjid, args['plate'], args['fiber'], args['mjd'], args['run2d'], allowed=(ValueError,), **kw)
    except ValueError:
        return
    raise Violation('accepted-invalid:%s:%s' % (which, mode if mode != 'range' else 'range:' + case['field']),
                    dict(case=case, got=[int(x) for x in np.ravel(got)]))


def reject_classify(case):
    return ['%s:%s:%s' % (case['which'], case['mode'] + ('-short' if case.get('short') else ''), case.get('field', '')), 'conv:' + case['conv']] + (['arrays:' + case.get('adt', 'i8')] if case['conv'] == 'array' else [])


SUBCHECKS = [
    SubCheck('field_sweeps', sweep_body, kind='exhaustive', cases=sweep_cases, nontrivial=sweep_nontrivial,
             classify=lambda c: ['%s:%s:%s' % (c['which'], c['field'], c['others'])], shards=(8, 16),
             doc='every value of each field, others all-min/all-max, array convention; run2d also as vN_M_P strings'),
    SubCheck('objid_tuples', obj_body, strategy=obj_strategy, classify=obj_classify,
             nontrivial=upper_half(OBJ_FIELDS), quick=1500, thorough=80000, shards=(2, 16),
             doc='random objID field tuples: scalar == array == big-int layout; unwrap from int64 and decimal strings'),
    SubCheck('specobjid_tuples', spec_body, strategy=spec_strategy, classify=spec_classify,
             nontrivial=upper_half(SPEC_FIELDS), quick=1500, thorough=80000, shards=(2, 16),
             doc='random specObjID tuples incl. line/index, run2d as int, vN_M_P and decimal text; unwrap both run2d forms'),
    SubCheck('refusals', reject_body, strategy=reject_strategy, classify=reject_classify,
             quick=1500, thorough=60000, shards=(1, 8),
             doc='out-of-range field, mismatched array length, line+index together must raise ValueError'),
]
