"""C02 -- yanny: the meaning of a file does not depend on its surface syntax.

The case is {doc, text, text2, feats, feats2, source, raw}: `doc` is the logical document (the reference
model), `text`/`text2` two independently drawn renderings of it.  The strategy does the rendering so
that Hypothesis shrinks document and layout together; the body only parses and compares.
"""
import io
import os
import re

import numpy as np
from hypothesis import strategies as st

from vk import SubCheck, Violation, call, judge, check
from vk.runner import tmpdir
from props import yannylib as Y

PROPERTY = 'C02'
LEVEL = 'exploration'
RULE = ('product document x rendering.  Document: 0-3 ordered pairs, 0-2 enums, 1-3 structs (1-5 columns of '
        'short/int/long/float/double/char[n]/char[]/enum, optionally [k] arrays incl. char[k][n] and char[k][]), 0-4 rows per '
        'table.  Rendering draws per line/token: #%yanny line, comment and blank lines, trailing comments, blank/tab runs, '
        'LF or CRLF, backslash continuation between tokens, strings bare/quoted/brace-wrapped, {{}} for empty strings, free '
        'spacing inside {..} arrays, [n] or <n>, one-line or multi-line typedefs with member comments, random letter case of '
        'the structure name on rows, interleaved rows of different tables, pairs before/between/after; source = path, text '
        'file object or binary file object; raw or record-array mode.  Oracle: expected tables/dtypes/cells/pairs computed from '
        'the document alone; second sub-check compares two renderings of one document with each other.  Non-trivial = >=1 '
        'data row and >=3 distinct layout freedoms used in the file; distinct = distinct case hash.')
RULE += '  Also: array lengths 10/12, files whose last line is not terminated, in-memory file objects (io.StringIO / io.BytesIO), binary handles opened for update.'
RULE += ' Round 5: table pairs whose name+column strings coincide (SPEC.OBJID / SPECOBJ.ID).'
ASSUMPTIONS = [
    'trailing comments contain no # and an even number of double quotes (the docstring of trailing_comment documents the rest as pathological); '
    'comments inside a typedef are letters, digits, blanks, commas, periods',
    'brace-wrapped scalar strings have no braces, #, double quote, leading/trailing blank; strings never contain a double quote, start with {, '
    'contain a {{}}-like run; string-array elements contain no }; bare strings contain no whitespace/#',
    'a one-line typedef has at least one blank between { and the first member type (yanny.type() reads the type as the non-blank run '
    'before the member name; "{short a;" is noted in DESIGN.md as an observation, not asserted)',
    'the structure name in a typedef is all upper or all lower case (the spellings yanny.type() documents); arbitrary case on data rows',
    'a table with a char[] column has >=1 row and that column >=1 non-empty value (sizing to the longest value presupposes one)',
    'keywords are identifiers distinct (case-insensitively) from structure names; pair values have no # outside double quotes, no {{}}-like run, no leading/trailing blanks',
    'floats are finite decimal texts; the expected value is float(text) converted to the declared width',
]

STR_ALPHA = 'abXY09 \t#;{}\',.:=\\-_/+*()[]<>|@!?~^&%$'
FLOAT_TEXTS = ['3', '+3', '3.', '.5', '1e5', '1.0E-03', '-2.5', '0', '-0.0', '17.546', '6.02e23', '-1e-30', '1E+10',
               '3.4028234e38', '1e-45', '0.1', '123456789.123456789', '1.7976931348623157e308', '5e-324', '-.25e+2']
INT_RANGE = {'short': (-2 ** 15, 2 ** 15 - 1), 'int': (-2 ** 31, 2 ** 31 - 1), 'long': (-2 ** 63, 2 ** 63 - 1)}
NP_KIND = {'short': 'i2', 'int': 'i4', 'long': 'i8', 'float': 'f4', 'double': 'f8'}


def strs(maxlen, in_array):
    return Y.text(maxlen, in_array=in_array, alphabet=STR_ALPHA)


@st.composite
def column(draw, name, enums):
    kinds = ['short', 'int', 'long', 'float', 'double', 'char', 'char', 'charv'] + (['enum'] if enums else [])
    k = draw(st.sampled_from(kinds))
    col = dict(name=name, kind=k, arr=draw(st.sampled_from([0, 0, 0, 1, 2, 3, 0, 10, 12])))
    if k == 'char':
        col['width'] = draw(st.integers(1, 10))
    if k == 'enum':
        col['enum'] = draw(st.sampled_from(sorted(enums)))
    return col


def cell_strategy(col, enums):
    k = col['kind']
    if k in INT_RANGE:
        lo, hi = INT_RANGE[k]
        b = st.one_of(st.sampled_from([lo, hi, 0, -1, 1]), st.integers(lo, hi)).map(str)
        b = st.one_of(b, st.integers(0, hi).map(lambda v: '+%d' % v)) if True else b
    elif k in ('float', 'double'):
        b = st.one_of(st.sampled_from(FLOAT_TEXTS if k == 'double' else [t for t in FLOAT_TEXTS if 'e308' not in t and 'e-324' not in t]),
                      st.floats(allow_nan=False, allow_infinity=False, width=32 if k == 'float' else 64).map(repr))
    elif k == 'char':
        b = strs(col['width'], col['arr'] > 0)
    elif k == 'charv':
        b = strs(12, col['arr'] > 0)
    else:
        b = st.sampled_from(enums[col['enum']])
    if col['arr']:
        return st.lists(b, min_size=col['arr'], max_size=col['arr'])
    return b


@st.composite
def document(draw):
    nen = draw(st.sampled_from([0, 0, 1, 2]))
    enums = {}
    for _ in range(nen):
        nm = draw(Y.ident)
        if nm.upper() in {e.upper() for e in enums}:
            continue
        enums[nm] = draw(st.lists(st.from_regex(r'[A-Z][A-Z0-9_]{0,6}', fullmatch=True), min_size=1, max_size=4, unique=True))
    ntab = draw(st.sampled_from([1, 1, 2, 2, 3]))
    tnames = draw(Y.struct_names(ntab))
    tnames = [n for n in tnames if n.upper() not in {e.upper() for e in enums}] or ['T_' + '_'.join(sorted(enums))]
    tables = []
    for tn in tnames:
        ncol = draw(st.integers(1, 5))
        cnames = draw(st.lists(Y.ident, min_size=ncol, max_size=ncol, unique=True))
        if ncol > 1 and draw(st.integers(0, 3)) == 0:
            # a column whose name is a proper prefix of another one, the longer one declared first or second
            longer = cnames[1] + draw(st.from_regex(r'[a-z0-9_]{1,4}', fullmatch=True))
            if longer not in cnames and longer.lower() not in Y.RESERVED:
                cnames[0] = longer
                if draw(st.booleans()):
                    cnames[0], cnames[1] = cnames[1], cnames[0]
        cols = [draw(column(c, enums)) for c in cnames]
        nrow = draw(st.sampled_from([0, 1, 1, 2, 3, 4]))
        if any(c['kind'] == 'charv' for c in cols):
            nrow = max(nrow, 1)
        rows = [[draw(cell_strategy(c, enums)) for c in cols] for _ in range(nrow)]
        for j, c in enumerate(cols):
            if c['kind'] == 'charv':
                vals = [x for r in rows for x in (r[j] if c['arr'] else [r[j]])]
                if not any(vals):
                    if c['arr']:
                        rows[0][j][0] = 'x'
                    else:
                        rows[0][j] = 'x'
        tables.append(dict(name=tn, cols=cols, rows=rows))
    # sometimes name a table like a column of another one
    if len(tables) > 1 and draw(st.integers(0, 4)) == 0:
        cand = tables[1]['cols'][0]['name']
        if cand.upper() not in {t['name'].upper() for t in tables} | {e.upper() for e in enums}:
            tables[0]['name'] = cand
    # sometimes two tables whose "table name + column name" strings coincide although both parts differ (SPEC.OBJID / SPECOBJ.ID),
    # the two columns being of different shape: anything remembered per (table, column) must keep them apart
    if len(tables) > 1 and draw(st.integers(0, 3)) == 0:
        t0, t1 = tables[0], tables[1]
        x = draw(st.from_regex(r'[A-Z]{1,3}', fullmatch=True))
        sep = draw(st.sampled_from(['', '_']))
        new1 = t0['name'].upper() + sep + x
        c1 = t1['cols'][0]
        newc = x + sep + c1['name']
        others = {t['name'].upper() for t in tables[2:]} | {e.upper() for e in enums} | {t0['name'].upper()}
        if new1 not in others and newc not in [c['name'] for c in t0['cols']] and newc.lower() not in Y.RESERVED and new1.lower() not in Y.RESERVED:
            t1['name'] = new1 if t0['name'].isupper() or draw(st.booleans()) else new1.lower()
            c0 = t0['cols'][0]
            c0['name'] = newc
            if c0['kind'] == c1['kind'] or True:
                # make the shapes differ: one scalar, one array
                if bool(c0['arr']) == bool(c1['arr']):
                    tgt, trows, j = (c0, t0['rows'], 0)
                    if tgt['arr']:
                        tgt['arr'] = 0
                        for r in trows:
                            r[j] = r[j][0]
                    else:
                        tgt['arr'] = 2
                        for r in trows:
                            v = r[j].replace('}', ')').replace('{', '(') if isinstance(r[j], str) else r[j]        # elements of string arrays hold no braces
                            r[j] = [v, v]
    taken = {t['name'].upper() for t in tables}
    keys = draw(st.lists(Y.keyword.filter(lambda k: k.upper() not in taken), max_size=3, unique_by=lambda k: k.upper()))
    if keys and draw(st.integers(0, 3)) == 0:
        # two keywords that differ only in letter case are two keywords
        k0 = keys[0]
        variants = [v for v in (k0.upper(), k0.lower(), k0.swapcase()) if v not in keys]
        if variants:
            keys.insert(draw(st.integers(0, len(keys))), variants[0])
    pval = st.one_of(
        st.text(alphabet='abXY09 \t;{}\',.:=-_/+*()[]<>|@!?~^&%$"', max_size=12).map(lambda s: s.strip()).filter(
            lambda s: not s.endswith('\\') and s.count('"') % 2 == 0),
        st.sampled_from(['', '54579', 'beta gamma delta', '"quoted value"', '{1 2 3}', 'a\tb']),
        # a comment mark inside double quotes is part of the value (round 9)
        st.sampled_from(['"r #2 (red)"', 'x "#1" y "#2"', 'filter "#"', '"# not a comment"']),
        st.text(alphabet='ab #;{}\t.', min_size=1, max_size=8).filter(lambda t: '#' in t).map(lambda t: 'v "%s"' % t))
    pairs = [[k, draw(pval)] for k in keys]
    return dict(enums=[[k, v] for k, v in enums.items()], tables=tables, pairs=pairs)


# ------------------------------------------------------------------ rendering
class R(object):
    def __init__(self, draw):
        self.draw = draw
        self.feats = set()

    def ws(self, minimum=1):
        s = self.draw(st.sampled_from([' ', ' ', ' ', '  ', '\t', ' \t', '\t\t ', '   '] + ([''] if minimum == 0 else [])))
        if '\t' in s:
            self.feats.add('tabs')
        if len(s) > 1:
            self.feats.add('wide-blanks')
        return s

    def flip(self, p=2):
        return self.draw(st.integers(0, p - 1)) == 0

    def string(self, s, in_array, force_quote=False):
        choices = ['q']
        if not force_quote:
            if s != '' and not re.search(r'[\s#"]', s) and not s.startswith('{') and not (in_array and '}' in s):
                choices += ['bare', 'bare']
            if s != '' and re.search(r'[{}#"]', s) is None and s == s.strip() and not in_array and not s.endswith('\\'):
                choices.append('brace')
            if s == '' and not in_array:
                choices.append('dbrace')
        c = self.draw(st.sampled_from(choices))
        if c == 'q':
            self.feats.add('str-quoted')
            return '"' + s + '"'
        if c == 'bare':
            self.feats.add('str-bare')
            return s
        if c == 'brace':
            self.feats.add('str-brace')
            return '{' + s + '}'
        self.feats.add('empty-dbrace')
        return self.draw(st.sampled_from(['{{}}', '{ { } }', '{ {} }', '{{ }}']))

    def cell(self, col, val, force_quote=False):
        k = col['kind']

        def one(v, in_array):
            if k in ('char', 'charv'):
                return self.string(v, in_array, force_quote)
            return v
        if col['arr']:
            inner = ''
            for i, v in enumerate(val):
                if i:
                    inner += self.ws(1)
                inner += one(v, True)
            a, b = self.ws(0), self.ws(0)
            if a or b:
                self.feats.add('array-inner-spacing')
            return '{' + a + inner + b + '}'
        return one(val, False)

    def randcase(self, s):
        out = ''.join(ch.upper() if self.flip() else ch.lower() for ch in s)
        if out != s.upper():
            self.feats.add('row-name-case')
        return out

    def trailing(self):
        c = self.draw(st.sampled_from(['', '', '', ' # note', ' # a "quoted" note', '\t#x', '  #  two  words ', ' #']))
        if c:
            self.feats.add('trailing-comment')
        return c

    def comment_line(self):
        self.feats.add('comment-line')
        # a line that is a comment from its first non-blank character on may hold anything, further # marks and unpaired quotes included
        return self.ws(0) + '#' + self.draw(st.text(alphabet='abc x,;{}"=#', max_size=8))

    def row_line(self, t, r, force_quote=False):
        ndb = 0
        toks = [self.randcase(t['name'])]
        for c, v in zip(t['cols'], r):
            tok = self.cell(c, v, force_quote)
            if c['kind'] in ('char', 'charv') and not c['arr'] and v == '' and tok.startswith('{'):
                ndb += 1
            toks.append(tok)
        line = self.ws(0)
        cont = False
        for i, tok in enumerate(toks):
            if i > 0:
                if self.draw(st.integers(0, 6)) == 0:
                    # the backslash may follow the token directly and the next line may start in column one: the two tokens stay apart
                    if self.draw(st.integers(0, 2)) == 0:
                        # the tight form: nothing before the backslash, nothing after it, the next line starts in column one
                        line += '\\\n'
                        self.feats.add('continuation-tight')
                    else:
                        line += self.ws(self.draw(st.sampled_from([1, 1, 0]))) + '\\' + self.draw(st.sampled_from(['', '', ' ', '\t'])) + '\n' + self.ws(0)
                    cont = True
                else:
                    line += self.ws(1)
            line += tok
        if Y.double_brace_tokens(line.replace('\\\n', ' ')) != ndb or (line.rstrip().endswith('\\')):
            if force_quote:
                raise AssertionError('renderer cannot avoid an accidental {{}}: %r' % line)
            return self.row_line(t, r, force_quote=True)
        if cont:
            self.feats.add('continuation')
        return line + self.trailing()


@st.composite
def rendering(draw, doc):
    r = R(draw)
    enums = dict(doc['enums'])
    head = []
    if r.flip():
        head.append('#%yanny')
        r.feats.add('magic-line')
    blocks = []
    for en, labels in doc['enums']:
        if r.flip():
            b = 'typedef enum {\n' + ',\n'.join('    ' + l for l in labels) + '\n} ' + en + ';'
        else:
            sep = draw(st.sampled_from([', ', ',', ',  ', ',\t']))
            pad = draw(st.sampled_from([' ', '', '  ']))
            b = 'typedef enum {' + pad + sep.join(labels) + pad + '} ' + en + ';'
            r.feats.add('enum-oneline')
            if sep == ',':
                r.feats.add('enum-no-blank-after-comma')
        blocks.append(b)
    for t in doc['tables']:
        mem = []
        commented = False
        for c in t['cols']:
            ty = {'charv': 'char', 'enum': c.get('enum')}.get(c['kind'], c['kind'])
            legacy = r.flip(3)
            if legacy and (c['arr'] or c['kind'] in ('char', 'charv')):
                r.feats.add('legacy-angle')
            L, Rb = ('<', '>') if legacy else ('[', ']')
            d = ty + r.ws(1) + c['name']
            if c['arr']:
                d += L + str(c['arr']) + Rb
            if c['kind'] == 'char':
                d += L + str(c['width']) + Rb
            if c['kind'] == 'charv':
                d += L + Rb
            d += ';'
            if r.flip(4):
                d += ' # ' + draw(st.text(alphabet='abc ,.09', max_size=8))
                commented = True
            mem.append(d)
        tname = t['name'].upper() if r.flip() else t['name'].lower()
        if commented or r.flip():
            b = 'typedef struct {\n' + '\n'.join(r.ws(0) + m for m in mem) + '\n}' + r.ws(0) + tname + ';'
            if commented:
                r.feats.add('typedef-member-comment')
        else:
            b = 'typedef struct {' + r.ws(1) + ' '.join(mem) + r.ws(0) + '}' + r.ws(0) + tname + ';'
            r.feats.add('typedef-oneline')
        blocks.append(b)
    # rows of different tables interleaved, per-table order kept
    queues = [[(t, row) for row in t['rows']] for t in doc['tables']]
    queues = [q for q in queues if q]
    rowlines = []
    last = None
    while queues:
        qi = draw(st.integers(0, len(queues) - 1))
        t, row = queues[qi].pop(0)
        if last is not None and last != t['name'] and any(x[0]['name'] == last for q in queues for x in q):
            r.feats.add('interleaved-tables')
        last = t['name']
        if not queues[qi]:
            queues.pop(qi)
        rowlines.append(r.row_line(t, row))
    pairlines = [r.ws(0) + k + (r.ws(1) + v if v else '') + r.trailing() for k, v in doc['pairs']]
    # pairs before / between / after (relative order of pairs kept)
    slots = sorted(draw(st.integers(0, len(blocks) + len(rowlines))) for _ in pairlines)
    body = blocks + rowlines
    out = list(head)
    pi = 0
    for i in range(len(body) + 1):
        while pi < len(pairlines) and slots[pi] == i:
            if 0 < i:
                r.feats.add('pair-after-start')
            out.append(pairlines[pi])
            pi += 1
        if i < len(body):
            out.append(body[i])
    final = []
    for l in out:
        if final and r.flip(5):
            final.append(r.comment_line())
        if final and r.flip(5):
            final.append(draw(st.sampled_from(['', ' ', '\t'])))
            r.feats.add('blank-line')
        final.append(l)
    nl = draw(st.sampled_from(['\n', '\n', '\r\n']))
    if nl == '\r\n':
        r.feats.add('crlf')
    text = nl.join(x.replace('\n', nl) for x in final)
    if final and not final[-1].rstrip(' \t').endswith('\\') and r.flip(6):
        r.feats.add('no-final-newline')        # the last line of the file is not terminated
    else:
        text += nl
    return text, sorted(r.feats)


@st.composite
def case_strategy(draw):
    doc = draw(document())
    text, feats = draw(rendering(doc))
    text2, feats2 = draw(rendering(doc))
    return dict(doc=doc, text=text, feats=feats, text2=text2, feats2=feats2,
                source=draw(st.sampled_from(['path', 'text-fileobj', 'binary-fileobj', 'binary-update-fileobj', 'stringio', 'bytesio'])), raw=draw(st.booleans()))


# ------------------------------------------------------------------ oracle
def read(text, source, raw, d, name='f.par'):
    from pydl.pydlutils.yanny import yanny
    fn = os.path.join(d, name)
    with open(fn, 'w', newline='') as f:
        f.write(text)
    if source == 'path':
        return call(yanny, fn, raw=raw)
    if source == 'stringio':        # in-memory text / binary file objects
        return call(yanny, io.StringIO(text, newline=''), raw=raw)
    if source == 'bytesio':
        return call(yanny, io.BytesIO(text.encode('ascii')), raw=raw)
    mode = {'text-fileobj': 'r', 'binary-fileobj': 'rb', 'binary-update-fileobj': 'r+b'}[source]
    with open(fn, mode) as f:
        return call(yanny, f, raw=raw)


def expected_dtype(t, enums):
    dt = []
    for j, c in enumerate(t['cols']):
        k = c['kind']
        if k in NP_KIND:
            b = NP_KIND[k]
        elif k == 'char':
            b = 'S%d' % c['width']
        elif k == 'charv':
            vals = [x for r in t['rows'] for x in (r[j] if c['arr'] else [r[j]])]
            b = 'S%d' % max(len(x) for x in vals)
        else:
            b = 'S%d' % max(len(x) for x in enums[c['enum']])
        dt.append((c['name'], b, (c['arr'],)) if c['arr'] else (c['name'], b))
    return np.dtype(dt)


def conv(c, v, raw):
    k = c['kind']
    if isinstance(v, list):
        return [conv(c, x, raw) for x in v]
    if k in INT_RANGE:
        return int(v)
    if k in ('float', 'double'):
        return float(v) if raw else (float(np.float32(float(v))) if k == 'float' else float(v))
    return v if raw else v.encode('ascii')


def compare_with_doc(y, doc, raw, label):
    enums = dict(doc['enums'])
    check(list(y.tables()) == [t['name'].upper() for t in doc['tables']], label + ':tables',
          lambda: dict(got=list(y.tables()), want=[t['name'].upper() for t in doc['tables']]))
    for t in doc['tables']:
        tn = t['name'].upper()
        check(list(y.columns(tn)) == [c['name'] for c in t['cols']], label + ':columns', lambda: dict(table=tn, got=list(y.columns(tn))))
        check(y.size(tn) == len(t['rows']), label + ':size', lambda: dict(table=tn, got=y.size(tn), want=len(t['rows'])))
        if not raw:
            want = expected_dtype(t, enums)
            check(y[tn].dtype == want, label + ':dtype', lambda: dict(table=tn, got=str(y[tn].dtype), want=str(want)))
            check(y.dtype(tn) == want, label + ':dtype-method', lambda: dict(table=tn, got=str(y.dtype(tn)), want=str(want)))
        for j, c in enumerate(t['cols']):
            exp = [conv(c, r[j], raw) for r in t['rows']]
            got = y[tn][c['name']]
            got = list(got) if raw else np.asarray(got).tolist()
            if raw:
                ok = got == exp and all(type(a) is type(b) for a, b in zip(_flat(got), _flat(exp)))
            else:
                ok = got == exp
            check(ok, label + ':cells:' + c['kind'], lambda: dict(table=tn, col=c['name'], got=got, want=exp))
    got = [(k, y[k]) for k in y.pairs()]
    want = [(k, v) for k, v in doc['pairs']]
    check(got == want, label + ':pairs', lambda: dict(got=got, want=want))


def _flat(x):
    for v in x:
        if isinstance(v, list):
            for w in v:
                yield w
        else:
            yield v


def body_doc(case):
    with tmpdir() as d:
        y = read(case['text'], case['source'], case['raw'], d)
        with judge('parse-vs-document'):
            compare_with_doc(y, case['doc'], case['raw'], 'doc')


def body_meta(case):
    with tmpdir() as d:
        y1 = read(case['text'], case['source'], case['raw'], d, 'a.par')
        y2 = read(case['text2'], 'path', case['raw'], d, 'b.par')
        with judge('two-renderings'):
            check(list(y1.tables()) == list(y2.tables()), 'meta:tables', lambda: dict(a=list(y1.tables()), b=list(y2.tables())))
            for tn in y1.tables():
                check(list(y1.columns(tn)) == list(y2.columns(tn)), 'meta:columns', lambda: dict(table=tn))
                if case['raw']:
                    same = dict(y1[tn]) == dict(y2[tn])
                else:
                    same = y1[tn].dtype == y2[tn].dtype and all(
                        np.asarray(y1[tn][c]).tolist() == np.asarray(y2[tn][c]).tolist() for c in y1.columns(tn))
                check(same, 'meta:table-content', lambda: dict(table=tn, a=repr(y1[tn])[:300], b=repr(y2[tn])[:300]))
            p1 = [(k, y1[k]) for k in y1.pairs()]
            p2 = [(k, y2[k]) for k in y2.pairs()]
            check(p1 == p2, 'meta:pairs', lambda: dict(a=p1, b=p2))


def classify(case):
    out = list(case['feats']) + ['source:' + case['source'], 'raw' if case['raw'] else 'recarray']
    doc = case['doc']
    names = [t['name'].upper() for t in doc['tables']]
    if any(a != b and a in b for a in names for b in names):
        out.append('substring-names')
    if any(n in {c['name'].upper() for t in doc['tables'] for c in t['cols']} for n in names):
        out.append('name-equals-column')
    for t in doc['tables']:
        if not t['rows']:
            out.append('zero-rows')
        for c in t['cols']:
            if c['kind'] == 'charv':
                out.append('char[]')
            if c['kind'] == 'enum':
                out.append('enum-col')
            if c['arr'] and c['kind'] in ('char', 'charv'):
                out.append('char-2d')
    if doc['pairs']:
        out.append('pairs')
    for t in doc['tables']:
        names = [c['name'] for c in t['cols']]
        if any(a != b and b.startswith(a) for a in names for b in names):
            out.append('column-name-prefix-of-another')
    return sorted(set(out))


def nontrivial(case, labels):
    return any(t['rows'] for t in case['doc']['tables']) and len(case['feats']) >= 3


def classify2(case):
    return sorted(set(classify(case)) | set(case['feats2']))


SUBCHECKS = [
    SubCheck('document_vs_parse', body_doc, strategy=case_strategy, classify=classify, nontrivial=nontrivial,
             quick=1500, thorough=150000, shards=(8, 16),
             doc='parse one rendering (path / text file object / binary file object, raw or not) and compare with the document'),
    SubCheck('two_renderings_agree', body_meta, strategy=case_strategy, classify=classify2, nontrivial=nontrivial,
             quick=600, thorough=50000, shards=(4, 16),
             doc='metamorphic: two independent renderings of the same document parse to identical tables and pairs'),
]
