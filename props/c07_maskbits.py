"""C07 -- bitmask names and values convert consistently for any maskbits file."""
import os

import re
import numpy as np
from hypothesis import strategies as st

from vk import SubCheck, Violation, call, judge, check
from vk.runner import tmpdir

PROPERTY = 'C07'
LEVEL = 'exploration'
RULE = ('Hypothesis maskbits configurations: 1-2 files per case (the second re-uses group names with other bit '
        'assignments, i.e. a reconfiguration history), each 1-5 groups x 1-20 labels on distinct bits 0..63 (bit 63 and '
        'sparse layouts favoured) + 0-3 aliases, rendered as a maskbits/maskalias parameter file (shuffled rows, quoted '
        'descriptions, comments) and loaded with set_maskbits(maskbits_file=) into the module cache.  Queries: label subsets in '
        'random order and letter case, 64-bit values (defined only / undefined only / mixed / 0 / 2^64-1), aliases, unknown '
        'groups and labels, flagexist in all four flag combinations.  Oracle: set algebra on the configuration.  '
        'Non-trivial = some group has a bit >= 32 and some query mixes >=2 labels or a value with undefined bits.')
RULE += '  Also: aliases of aliases, labels passed as tuple / ndarray, files without alias typedef, signed 64-bit values.'
RULE += ' Round 5: column order of the maskbits / maskalias typedefs varied.'
ASSUMPTIONS = ['group and label names in the file are upper-case identifiers (as in the official file; queries are upper-cased, file contents are not)',
               'one label per bit within a group; queried label lists are distinct',
               'the cache is (re)configured the way the package tests do it: sdss.maskbits = set_maskbits(maskbits_file=...)']

name = st.from_regex(r'[A-Z][A-Z0-9_]{0,11}', fullmatch=True)


@st.composite
def config(draw, reuse=None):
    ng = draw(st.integers(1, 5))
    gnames = draw(st.lists(name, min_size=ng, max_size=ng, unique=True))
    if reuse:
        k = draw(st.integers(1, len(reuse)))
        gnames = (list(reuse[:k]) + [g for g in gnames if g not in reuse])[:max(ng, k)]
    groups = []
    for g in gnames:
        nl = draw(st.integers(1, 20))
        bits = draw(st.lists(st.one_of(st.sampled_from([0, 1, 31, 32, 33, 62, 63]), st.integers(0, 63)),
                             min_size=1, max_size=nl, unique=True))
        labels = draw(st.lists(name, min_size=len(bits), max_size=len(bits), unique=True))
        groups.append(dict(name=g, labels=[[l, b] for l, b in zip(labels, bits)]))
    na = draw(st.integers(0, 3))
    aliases = []
    taken = set(gnames)
    for _ in range(na):
        a = draw(name)
        if a in taken:
            continue
        taken.add(a)
        # an alias may point at a group or at an alias declared before it
        aliases.append([a, draw(st.sampled_from(gnames + [x for x, t in aliases]))])
    order = draw(st.permutations(list(range(sum(len(g['labels']) for g in groups)))))
    return dict(groups=groups, aliases=aliases, order=list(order), crlf=draw(st.booleans()),
                alias_typedef=bool(aliases) or draw(st.booleans()), masktype_rows=draw(st.booleans()),
                cols=draw(st.sampled_from(['standard', 'standard', 'alias-swapped', 'bits-swapped', 'both-swapped'])),
                final_newline=draw(st.sampled_from([True, True, False])), indent=draw(st.sampled_from([0, 0, 1, 2])), nodesc=draw(st.sampled_from([0, 0, 1, 3])),
                blank_lines=draw(st.sampled_from([0, 0, 2, 5])),
                # round 9: typedefs written compactly (all members on one line / two per line), bit numbers padded with zeros or signed
                typedef_style=draw(st.sampled_from(['lines', 'lines', 'one-line', 'two-per-line'])),
                bitfmt=draw(st.sampled_from(['%2d', '%2d', '%d', '%02d', '%03d', '+%d'])),
                # round 10: fields separated by a tab / tab and blanks (the official sdssMaskbits.par mixes both); a masktype typedef that
                # parses (no braces in its comment) with a width column that is a remark, not a constraint on the bit numbers
                fieldsep=draw(st.sampled_from([None, None, '\t', '\t ', ' \t', '\t\t'])), masktype_plain=draw(st.booleans()),
                masktype_width=draw(st.sampled_from([64, 32, 16, 8])),
                # round 12: the bit column declared short / int / long (all integers of the format); rows continued on a second line before
                # the label field, with nothing / a blank / a tab behind the backslash
                bit_type=draw(st.sampled_from(['short', 'long', 'int', 'short'])), cont=draw(st.sampled_from([0, 0, 1, 2])),
                cont_trail=draw(st.sampled_from([' ', '', '\t', '  '])))


def mixcase(draw, s):
    return ''.join(c.lower() if draw(st.booleans()) else c for c in s)


@st.composite
def queries(draw, cfg):
    out = []
    targets = [g['name'] for g in cfg['groups']] + [a for a, t in cfg['aliases']]
    real = {g['name']: g for g in cfg['groups']}
    for a, t in cfg['aliases']:
        real[a] = real[t]
    for _ in range(draw(st.integers(2, 6))):
        gname = draw(st.sampled_from(targets))
        g = real[gname]
        labs = [l for l, b in g['labels']]
        sub = draw(st.lists(st.sampled_from(labs), unique=True, max_size=len(labs)))
        defined = 0
        for l, b in g['labels']:
            defined |= 1 << b
        vkind = draw(st.sampled_from(['defined', 'undefined', 'mixed', 'zero', 'all', 'any']))
        anyv = draw(st.integers(0, 2 ** 64 - 1))
        value = {'defined': anyv & defined, 'undefined': anyv & ~defined & (2 ** 64 - 1), 'mixed': anyv | (1 << draw(st.sampled_from([b for l, b in g['labels']]))),
                 'zero': 0, 'all': 2 ** 64 - 1, 'any': anyv}[vkind]
        out.append(dict(group=mixcase(draw, gname), names=[mixcase(draw, l) for l in sub], single=draw(st.booleans()),
                        value=value, vkind=vkind))
    bogus_g = draw(name.filter(lambda n: n not in real))
    g0 = cfg['groups'][0]
    bogus_l = draw(name.filter(lambda n: n not in [l for l, b in g0['labels']]))
    return dict(q=out, bogus_group=bogus_g, bogus_label=bogus_l)


@st.composite
def case_strategy(draw):
    c1 = draw(config())
    cfgs = [dict(cfg=c1, **draw(queries(c1)))]
    if draw(st.integers(0, 2)) == 0:
        c2 = draw(config(reuse=[g['name'] for g in c1['groups']]))
        cfgs.append(dict(cfg=c2, **draw(queries(c2))))
    return dict(configs=cfgs)


def render(cfg):
    # columns are named, so their order in a typedef (and with it the order of the fields on the rows) is free
    swap_bits = cfg.get('cols') in ('bits-swapped', 'both-swapped')
    swap_alias = cfg.get('cols') in ('alias-swapped', 'both-swapped')
    bits_decl = ['    char flag[20]; # Flag name', '    short bit; # Bit number, 0-indexed', '    char label[30]; # Bit label']
    if swap_bits:
        bits_decl = [bits_decl[2], bits_decl[0], bits_decl[1]]
    bits_decl = [b_.replace('short bit;', cfg.get('bit_type', 'short') + ' bit;') for b_ in bits_decl]
    lines = ['#%yanny', '# generated maskbits file', '', 'typedef struct {'] + bits_decl + [
             '    char description[100]; # text description', '} maskbits;', '', 'typedef struct {',
             '    char flag[20]; # Flag name', '    short datatype; # Data type 8, 16, 32 or 64' if cfg.get('masktype_plain') else '    short datatype; # Data type {8, 16, 32, 64}',
             '    char description[100]; # text description', '} masktype;', '']
    if cfg.get('alias_typedef', True):
        adecl = ['    char flag[20]; # Flag (real) name', '    char alias[20]; # Alias']
        lines += ['typedef struct {'] + (adecl[::-1] if swap_alias else adecl) + ['    char description[100]; # text description', '} maskalias;', '']
    style = cfg.get('typedef_style', 'lines')
    if style != 'lines':
        # the same typedefs with several members per line (comments cannot follow a member then)
        out, block = [], None
        for ln in lines:
            if ln.startswith('typedef struct {'):
                block = []
            elif block is not None and ln.startswith('}'):
                if style == 'one-line':
                    out.append('typedef struct { ' + ' '.join(block) + ' ' + ln)
                else:
                    out.append('typedef struct {')
                    out += ['    ' + ' '.join(block[i:i + 2]) for i in range(0, len(block), 2)]
                    out.append(ln)
                block = None
            elif block is not None:
                block.append(ln.split('#')[0].strip())
            else:
                out.append(ln)
        lines = out
    bf = cfg.get('bitfmt', '%2d')
    rows = []
    for g in cfg['groups']:
        for l, b in g['labels']:
            if swap_bits:
                rows.append('maskbits %s %s %s    "bit %d of %s; a #description"' % (l, g['name'], bf % b, b, g['name']))
            else:
                rows.append('maskbits %s %s %s    "bit %d of %s; a #description"' % (g['name'], bf % b, l, b, g['name']))
    rows = [rows[i] for i in cfg['order']]
    for i, g in enumerate(cfg['groups'] if cfg.get('masktype_rows', True) else []):
        rows.insert((7 * i) % (len(rows) + 1), 'masktype %s %d "the %s group"' % (g['name'], cfg.get('masktype_width', 64), g['name']))
    for j, (a, t) in enumerate(cfg['aliases']):
        rows.insert(min(3 * j + 1, len(rows)), 'maskalias %s %s "%s is a synonym for %s."' % ((a, t, a, t) if swap_alias else (t, a, a, t)))      # ascending positions: declaration order kept
    fs = cfg.get('fieldsep')
    if fs:
        def resep(r):
            q = r.find('"')
            head, tail = (r[:q], r[q:]) if q > 0 else (r, '')
            return fs.join(head.split()) + (fs if tail else '') + tail
        rows = [resep(r) for r in rows]
    # some rows indented (blanks / tab), some without the trailing description text
    ind = cfg.get('indent', 0)
    if ind:
        rows = [(('  ', '\t', ' \t ')[(i + ind) % 3] + r) if (i + ind) % 3 != 2 else r for i, r in enumerate(rows)]
    nd = cfg.get('nodesc', 0)
    if nd:
        def strip_desc(r):
            q = r.find('"')
            return r[:q].rstrip() if q > 0 else r
        rows = [strip_desc(r) if (i + nd) % 4 == 0 else r for i, r in enumerate(rows)]
    rows.insert(len(rows) // 2, '#------------------------------------------------------------------------------')
    bl = cfg.get('blank_lines', 0)
    if bl:
        # separator lines between blocks of rows: empty, or holding only blanks / a tab
        out = []
        for i, r in enumerate(rows):
            if i and i % bl == 0:
                out.append(('', '  ', '\t', ' \t')[(i // bl) % 4])
            out.append(r)
        rows = out
    ct = cfg.get('cont', 0)
    if ct:
        out = []
        for i, r in enumerate(rows):
            m_ = re.match(r'(\s*(?:maskbits|maskalias)\s+\S+\s+\S+)\s+(\S.*)$', r)
            if m_ and (i + ct) % 3 == 0 and '\\' not in r:
                out += [m_.group(1) + ' \\' + cfg.get('cont_trail', ''), '      ' + m_.group(2)]
            else:
                out.append(r)
        rows = out
    nl = '\r\n' if cfg['crlf'] else '\n'
    return nl.join(lines + rows) + (nl if cfg.get('final_newline', True) else '')


def body(case):
    import pydl.pydlutils.sdss as S
    from pydl.pydlutils.sdss import set_maskbits, sdss_flagval, sdss_flagname, sdss_flagexist
    with tmpdir() as d:
        for ci, item in enumerate(case['configs']):
            cfg = item['cfg']
            fn = os.path.join(d, 'mb%d.par' % ci)
            with open(fn, 'w', newline='') as f:
                f.write(render(cfg))
            S.maskbits = call(set_maskbits, maskbits_file=fn)
            real = {g['name']: dict(g['labels']) for g in cfg['groups']}
            for a, t in cfg['aliases']:
                real[a] = real[t]
            with judge('cache'):
                check(set(S.maskbits.keys()) == set(real), 'cache:groups', lambda: dict(got=sorted(S.maskbits.keys()), want=sorted(real)))
            for q in item['q']:
                G = q['group'].upper()
                bits = real[G]
                want = 0
                for n in q['names']:
                    want |= 1 << bits[n.upper()]
                arg = q['names'][0] if (q['single'] and len(q['names']) == 1) else list(q['names'])
                got = call(sdss_flagval, q['group'], arg)
                with judge('flagval'):
                    check(int(got) == want, 'flagval', lambda: dict(group=q['group'], names=q['names'], got=int(got), want=want))
                # names -> value -> names
                back = call(sdss_flagname, q['group'], got)
                exp_names = [l for l, b in sorted(bits.items(), key=lambda x: x[1]) if want >> b & 1]
                with judge('flagname'):
                    check(list(back) == exp_names, 'names-value-names', lambda: dict(names=q['names'], got=list(back), want=exp_names))
                # value -> names (ascending bit order) -> value restricted to defined bits
                v = q['value']
                for val in (v, np.uint64(v), np.uint64(v).astype(np.int64)):      # the last: the same 64-bit pattern as FITS stores it (signed)
                    got_names = call(sdss_flagname, q['group'], val)
                    exp = [l for l, b in sorted(bits.items(), key=lambda x: x[1]) if v >> b & 1]
                    with judge('flagname'):
                        check(list(got_names) == exp, 'flagname:' + q['vkind'], lambda: dict(group=G, value=v, got=list(got_names), want=exp))
                cat = call(sdss_flagname, q['group'], v, concat=True)
                with judge('flagname-concat'):
                    check(cat == ' '.join(exp), 'flagname-concat', lambda: dict(got=cat, want=' '.join(exp)))
                if exp:
                    again = call(sdss_flagval, q['group'], exp)
                    dv = sum(1 << b for b in bits.values()) & v
                    with judge('value-names-value'):
                        check(int(again) == dv, 'value-names-value', lambda: dict(value=v, defined_part=dv, got=int(again)))
                # existence
                ex = call(sdss_flagexist, q['group'], arg, flagexist=True, whichexist=True)
                with judge('flagexist'):
                    check(tuple(ex[:2]) == (True, True) and list(ex[2]) == [True] * len(q['names']), 'flagexist-known',
                          lambda: dict(got=repr(ex)))
            # unknown group / label
            bg, bl = item['bogus_group'], item['bogus_label']
            g0 = cfg['groups'][0]
            l0 = g0['labels'][0][0]
            for what, fn_, args in (('flagval-unknown-group', sdss_flagval, (bg, l0)),
                                    ('flagval-unknown-label', sdss_flagval, (g0['name'], [l0, bl])),
                                    ('flagname-unknown-group', sdss_flagname, (bg, 1))):
                try:
                    r = call(fn_, *args, allowed=(KeyError,))
                except KeyError:
                    pass
                else:
                    raise Violation(what + '-no-KeyError', dict(args=repr(args), got=repr(r)))
            z = call(sdss_flagname, bg, 0)
            with judge('zero'):
                check(list(z) == [], 'zero-value-unknown-group', repr(z))
            z = call(sdss_flagname, g0['name'], 0, concat=True)
            with judge('zero'):
                check(z == '', 'zero-value-concat', repr(z))
            # existence query: every combination of (known / unknown group) x (label given as a string / list) x (flagexist, whichexist)
            known_l = {l for l, b in g0['labels']}
            for grp in (g0['name'], g0['name'].lower(), bg):
                gok = grp.upper() in real
                for labels in (l0, l0.lower(), bl, [l0], [bl], [l0, bl], [bl, l0], [bl, bl + 'X', l0], (l0, bl), (l0,), np.array([bl, l0])):
                    lablist = [labels] if isinstance(labels, str) else list(labels)
                    which = [gok and (x.upper() in known_l) for x in lablist]
                    allok = all(which) and gok
                    for fe in (False, True):
                        for we in (False, True):
                            r = call(sdss_flagexist, grp, labels, flagexist=fe, whichexist=we)
                            with judge('flagexist'):
                                if fe and we:
                                    want = (allok, gok, which)
                                    got = (bool(r[0]), bool(r[1]), [bool(x) for x in r[2]]) if isinstance(r, tuple) and len(r) == 3 else r
                                elif fe:
                                    want = (allok, gok)
                                    got = (bool(r[0]), bool(r[1])) if isinstance(r, tuple) and len(r) == 2 else r
                                elif we:
                                    want = (allok, which)
                                    got = (bool(r[0]), [bool(x) for x in r[1]]) if isinstance(r, tuple) and len(r) == 2 else r
                                else:
                                    want = allok
                                    got = bool(r) if isinstance(r, (bool, np.bool_)) else r
                                check(got == want, 'flagexist:wrong-answer', lambda: dict(group=grp, labels=labels, flagexist=fe, whichexist=we, got=repr(r), want=repr(want)))


def classify(case):
    out = ['configs:%d' % len(case['configs'])]
    for item in case['configs']:
        cfg = item['cfg']
        if cfg['aliases']:
            out.append('aliases')
        out.append('typedef:' + cfg.get('typedef_style', 'lines'))
        out.append('bitfmt:' + cfg.get('bitfmt', '%2d'))
        for g in cfg['groups']:
            bs = [b for l, b in g['labels']]
            if 63 in bs:
                out.append('bit63')
            if 0 in bs:
                out.append('bit0')
            if max(bs) >= 32:
                out.append('bit>=32')
        for q in item['q']:
            out.append('value:' + q['vkind'])
            if len(q['names']) >= 2:
                out.append('multi-label')
            if q['group'].upper() in [a for a, t in cfg['aliases']]:
                out.append('alias-query')
    return sorted(set(out))


def nontrivial(case, labels):
    return 'bit>=32' in labels and ('multi-label' in labels or 'value:mixed' in labels or 'value:undefined' in labels or 'value:all' in labels)


# ------------------------------------------------------------------ a definition file without any flag group
def empty_cases(tier):
    for crlf in (False, True):
        for rows in ('none', 'commented-out'):
            yield dict(crlf=crlf, rows=rows)


def empty_body(case):
    """A maskbits file that declares the tables but defines no group (every row removed or commented out) is a configuration too:
    every group is unknown in it - the existence query says so without raising, conversions raise KeyError, nothing else happens
    (in particular nothing is fetched from anywhere)."""
    import pydl.pydlutils.sdss as S
    from pydl.pydlutils.sdss import set_maskbits, sdss_flagval, sdss_flagname, sdss_flagexist
    text = render(dict(groups=[], aliases=[], order=[], crlf=case['crlf'], alias_typedef=True, masktype_rows=False))
    if case['rows'] == 'commented-out':
        text += '# maskbits TARGET 0 QSO_HIZ "commented out"' + ('\r\n' if case['crlf'] else '\n')
    with tmpdir() as d:
        fn = os.path.join(d, 'empty.par')
        with open(fn, 'w', newline='') as f:
            f.write(text)
        S.maskbits = call(set_maskbits, maskbits_file=fn)
        with judge('empty-config'):
            check(dict(S.maskbits) == {}, 'empty:cache-not-empty', lambda: repr(S.maskbits))
        r = call(sdss_flagexist, 'TARGET', 'QSO_HIZ')
        r2 = call(sdss_flagexist, 'TARGET', ['QSO_HIZ', 'X'], flagexist=True, whichexist=True)
        with judge('empty-config'):
            check(r is False or (isinstance(r, (bool, np.bool_)) and not r), 'empty:flagexist-not-false', lambda: repr(r))
            check(bool(r2[0]) is False and bool(r2[1]) is False and [bool(x) for x in r2[2]] == [False, False], 'empty:flagexist-detail', lambda: repr(r2))
        for fn_, args in ((sdss_flagval, ('TARGET', 'QSO_HIZ')), (sdss_flagname, ('TARGET', 5))):
            try:
                call(fn_, *args, allowed=(KeyError,))
            except KeyError:
                pass
            else:
                raise Violation('empty:conversion-did-not-raise-KeyError', fn_.__name__)
        z = call(sdss_flagname, 'TARGET', 0)
        with judge('empty-config'):
            check(list(z) == [] or z == '', 'empty:zero-value-names-bits', lambda: repr(z))
            check(dict(S.maskbits) == {}, 'empty:cache-replaced', lambda: sorted(S.maskbits)[:5])


SUBCHECKS = [
    SubCheck('empty_config', empty_body, kind='exhaustive', cases=empty_cases, classify=lambda c: ['crlf' if c['crlf'] else 'lf', 'rows:' + c['rows']], nontrivial=lambda c, l: True,
             shards=(1, 1), floor=0.0, doc='a definition file without any group: everything unknown, nothing raised by the existence query, nothing fetched'),
    SubCheck('maskbits_config', body, strategy=case_strategy, classify=classify, nontrivial=nontrivial,
             quick=2400, thorough=120000, shards=(8, 16),
             doc='generated maskbits files (incl. reconfiguration with re-used group names) x generated name/value queries'),
]
