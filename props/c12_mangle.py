"""C12 -- Mangle window functions decide point membership exactly as the caps define."""
import math
import os

import numpy as np
from hypothesis import strategies as st

from vk import SubCheck, Violation, call, judge, check, note_label
from vk.runner import tmpdir

PROPERTY = 'C12'
LEVEL = 'exploration'
RULE = ('Hypothesis polygons: 0-8 caps with unit vectors (uniform, axis-aligned, exact duplicates), cm in +-(1e-6..2), arbitrary '
        'use-masks; polygon lists of 1-6; points: uniform on the sphere, every cap centre and antipode, points at 0.999 / 1.001 of a '
        'cap radius, given as Cartesian vectors and as RA/Dec; ncaps restriction 0..n.  Storage formats written by the harness: '
        'Mangle .ply text (17 digits), FITS polygon table in the multi-cap (n,3) layout and the one-cap 3D layout (raw and '
        'converted), window_blist/window_bcaps pair read through window_read(balkans=True).  set_use_caps with index lists '
        '(subsets, permutations, repeats), exact duplicate / negated caps, add / allow_doubles / allow_neg_doubles.  Oracle: the '
        'cap inequality 1 - x.p <= cm (complement for cm<0) in float64, AND over selected caps, first containing polygon.  '
        'Non-trivial = polygon with >=2 used caps incl. a negative one and points both inside and outside; index list != range(ncaps).')
RULE += '  Also: cm = 0 caps, polygons with 33-70 caps and numpy index arrays for set_use_caps, windows of 33000 / 70000 polygons.'
ASSUMPTIONS = ['points whose 1 - x.p is within 1e-12 (+1e-12 relative) of |cm| are accepted either way, except exact cap centres',
               '|cm| <= 2; cap vectors are unit vectors to 1e-15',
               '.ply files and the window reader carry no use-mask: cross-format agreement there is asserted for all-caps masks',
               'stored polygons have >= 1 cap (an empty polygon is exercised in memory)',
               'duplicate caps for set_use_caps are exact copies / exact negations (no near-tolerance cases)']

uf = st.floats(-1.0, 1.0, allow_nan=False)


@st.composite
def unit_vector(draw):
    kind = draw(st.integers(0, 5))
    if kind == 0:
        v = draw(st.sampled_from([(1., 0., 0.), (0., 1., 0.), (0., 0., 1.), (-1., 0., 0.), (0., 0., -1.), (0., -1., 0.)]))
        return list(v)
    z = draw(uf)
    phi = math.pi * draw(uf)
    s = math.sqrt(max(0.0, 1 - z * z))
    v = np.array([s * math.cos(phi), s * math.sin(phi), z])
    v = v / np.linalg.norm(v)
    return [float(t) for t in v]


cm_value = st.one_of(st.sampled_from([1.0, -1.0, 0.5, -0.5, 2.0, -2.0, 1e-6, -1e-6, 0.1, -0.1, 1.5, -1.5, 0.01, 0.0]),
                     st.floats(1e-6, 2.0).map(lambda v: v), st.floats(1e-6, 2.0).map(lambda v: -v))


@st.composite
def polygon(draw, min_caps=0, max_caps=8):
    n = draw(st.integers(min_caps, max_caps))
    xs, cms = [], []
    for i in range(n):
        if i and draw(st.integers(0, 5)) == 0:
            j = draw(st.integers(0, i - 1))
            xs.append(list(xs[j]))
            cms.append(draw(st.sampled_from([cms[j], -cms[j], draw(cm_value)])))
        else:
            xs.append(draw(unit_vector()))
            cms.append(draw(cm_value))
    full = (1 << n) - 1
    use = draw(st.sampled_from(['all', 'all', 'any'])) if n else 'all'
    # the weight of a polygon (completeness; exactly 0 is common) has nothing to do with which points it contains
    return dict(x=xs, cm=cms, use_caps=full if use == 'all' else draw(st.integers(0, full)), weight=draw(st.sampled_from([1.0, 1.0, 0.0, 0.5, 0.0])))


@st.composite
def points_for(draw, polys, nrand=6):
    pts = [draw(unit_vector()) for _ in range(draw(st.integers(1, nrand)))]
    caps = [(x, cm) for p in polys for x, cm in zip(p['x'], p['cm'])]
    for x, cm in caps[:10]:
        which = draw(st.integers(0, 4))
        v = np.array(x)
        if which == 0:
            pts.append(list(x))
        elif which == 1:
            pts.append([-t for t in x])
        else:
            # a point at angular distance f * radius from the centre
            f = draw(st.sampled_from([0.999, 1.001, 0.5, 1.5]))
            theta = f * math.acos(max(-1.0, 1.0 - abs(cm)))
            if theta > math.pi:
                theta = math.pi - 1e-3
            # orthonormal direction
            a = np.array([1.0, 0, 0]) if abs(v[0]) < 0.9 else np.array([0, 1.0, 0])
            e1 = np.cross(v, a)
            e1 /= np.linalg.norm(e1)
            e2 = np.cross(v, e1)
            psi = math.pi * draw(uf)
            w = math.cos(theta) * v + math.sin(theta) * (math.cos(psi) * e1 + math.sin(psi) * e2)
            w /= np.linalg.norm(w)
            pts.append([float(t) for t in w])
    return pts


def to_radec(pts):
    p = np.array(pts)
    ra = np.degrees(np.arctan2(p[:, 1], p[:, 0])) % 360.0
    dec = np.degrees(np.arcsin(np.clip(p[:, 2], -1, 1)))
    return np.stack([ra, dec], -1)


def radec_to_xyz(rd):
    r, d = np.radians(rd[:, 0]), np.radians(rd[:, 1])
    return np.stack([np.cos(d) * np.cos(r), np.cos(d) * np.sin(r), np.sin(d)], -1)


# ------------------------------------------------------------------ oracle
def cap_verdict(x, cm, P):
    """+1 inside, -1 outside, 0 undecided (within the tolerance band) for every row of P."""
    Pn = P / np.linalg.norm(P, axis=1)[:, None]
    q = 1.0 - Pn.dot(np.array(x))
    inside = q <= abs(cm)
    band = np.abs(q - abs(cm)) < 1e-12 + 1e-12 * abs(cm)
    if cm < 0:
        inside = ~inside
    v = np.where(inside, 1, -1)
    v[band] = 0
    return v


def poly_verdict(p, P, ncaps=0):
    n = len(p['cm'])
    use_n = min(ncaps, n) if ncaps > 0 else n
    v = np.ones(len(P), dtype=int)
    for i in range(use_n):
        if p['use_caps'] >> i & 1:
            c = cap_verdict(p['x'][i], p['cm'][i], P)
            # AND in three-valued logic
            v = np.where((v == -1) | (c == -1), -1, np.where((v == 0) | (c == 0), 0, 1))
    return v


def window_verdict(polys, P, ncaps=0):
    """returns list of sets of admissible answers per point"""
    V = [poly_verdict(p, P, ncaps) for p in polys]
    out = []
    for k in range(len(P)):
        ok = set()
        for i, v in enumerate(V):
            if v[k] == 1:
                ok.add(i)
                break
            if v[k] == 0:
                ok.add(i)
        else:
            ok.add(-1)
        out.append(ok)
    return out


def make_polygon(p):
    from pydl.pydlutils.mangle import ManglePolygon
    if not p['cm']:
        return ManglePolygon()
    return ManglePolygon(x=np.array(p['x'], dtype='f8').reshape(-1, 3), cm=np.array(p['cm'], dtype='f8'), use_caps=p['use_caps'], weight=p.get('weight', 1.0))


def compare_bool(got, verdict, kind, detail):
    got = np.asarray(got)
    check(got.shape == verdict.shape and got.dtype == bool, kind + ':malformed', lambda: dict(shape=got.shape, dtype=str(got.dtype)))
    bad = [k for k in range(len(verdict)) if verdict[k] != 0 and bool(got[k]) != (verdict[k] == 1)]
    check(not bad, kind, lambda: dict(point_index=bad[0], got=bool(got[bad[0]]), want=bool(verdict[bad[0]] == 1), **detail(bad[0])))


# ------------------------------------------------------------------ membership
@st.composite
def membership_case(draw):
    polys = [draw(polygon()) for _ in range(draw(st.integers(1, 5)))]
    if draw(st.integers(0, 15)) == 0:
        # many caps (balkanised survey polygons can have dozens): the use-mask needs more than 63 bits
        big = draw(polygon(min_caps=64, max_caps=70))
        big['cm'] = [abs(c) if abs(c) > 1.0 else 2.0 - abs(c) for c in big['cm']]       # large caps so that something is inside
        polys[0] = big
    pts = draw(points_for(polys))
    return dict(polys=polys, points=pts, mode=draw(st.sampled_from(['xyz', 'radec'])), ncaps=draw(st.sampled_from([0, 0, 1, 2, 3, 9])))


def membership_body(case):
    from pydl.pydlutils.mangle import is_in_cap, is_in_polygon, is_in_window, PolygonList
    P = np.array(case['points'], dtype='f8')
    if case['mode'] == 'radec':
        arg = to_radec(case['points'])
        Pref = radec_to_xyz(arg)
        centre_exact = False
    else:
        arg = P
        Pref = P
        centre_exact = True
    polys = case['polys']
    objs = PolygonList([make_polygon(p) for p in polys])
    saw_in = saw_out = False
    for pi, p in enumerate(polys):
        for i in range(len(p['cm'])):
            got = call(is_in_cap, np.array(p['x'][i]), p['cm'][i], arg)
            v = cap_verdict(p['x'][i], p['cm'][i], Pref)
            if centre_exact:
                # the cap's own centre is asserted even though it sits in no band
                for k in range(len(P)):
                    if case['points'][k] == p['x'][i] and p['cm'][i] != 0:      # cm = 0: the centre is the boundary itself (rounding decides)
                        v[k] = 1 if p['cm'][i] > 0 else -1
            with judge('is_in_cap'):
                compare_bool(got, v, 'is_in_cap', lambda k: dict(x=p['x'][i], cm=p['cm'][i], point=case['points'][k], mode=case['mode']))
        for nc in sorted({0, case['ncaps']}):
            got = call(is_in_polygon, objs[pi], arg, ncaps=nc)
            v = poly_verdict(p, Pref, nc)
            with judge('is_in_polygon'):
                compare_bool(got, v, 'is_in_polygon', lambda k: dict(polygon=p, point=case['points'][k], ncaps=nc, mode=case['mode']))
            saw_in |= bool((v == 1).any())
            saw_out |= bool((v == -1).any())
    for nc in sorted({0, case['ncaps']}):
        inside, which = call(is_in_window, objs, arg, ncaps=nc)
        want = window_verdict(polys, Pref, nc)
        with judge('is_in_window'):
            which = [int(w) for w in which]
            check(len(which) == len(P) and len(inside) == len(P), 'is_in_window:malformed')
            for k in range(len(P)):
                check(which[k] in want[k], 'is_in_window:wrong-polygon', lambda: dict(point=case['points'][k], got=which[k], admissible=sorted(want[k]), ncaps=nc))
                check(bool(inside[k]) == (which[k] >= 0), 'is_in_window:flag-inconsistent', lambda: dict(point=k, flag=bool(inside[k]), index=which[k]))
    if saw_in and saw_out:
        note_label('inside-and-outside')


def membership_classify(case):
    out = ['mode:' + case['mode'], 'ncaps-arg:%d' % case['ncaps'], 'npoly:%d' % len(case['polys'])]
    for p in case['polys']:
        n = len(p['cm'])
        if n == 0:
            out.append('empty-polygon')
        used = [i for i in range(n) if p['use_caps'] >> i & 1]
        if len(used) >= 2 and any(p['cm'][i] < 0 for i in used):
            out.append('>=2-used-caps-with-negative')
        if n and p['use_caps'] != (1 << n) - 1:
            out.append('partial-mask')
        for x in p['x']:
            if x in case['points']:
                out.append('cap-centre-point')
            if [-t for t in x] in case['points']:
                out.append('antipode-point')
    return sorted(set(out))


def membership_nontrivial(case, labels):
    return '>=2-used-caps-with-negative' in labels and 'inside-and-outside' in labels


# ------------------------------------------------------------------ storage formats
@st.composite
def format_case(draw):
    layout = draw(st.sampled_from(['multi', 'multi', 'one-cap']))
    npoly = draw(st.integers(1, 5))
    polys = [draw(polygon(min_caps=1, max_caps=1 if layout == 'one-cap' else 6)) for _ in range(npoly)]
    pts = draw(points_for(polys, nrand=8))
    return dict(layout=layout, polys=polys, points=pts, mode=draw(st.sampled_from(['xyz', 'radec'])), no_ifield=draw(st.sampled_from([False, True])),
                captable=dict(order=list(draw(st.permutations(list(range(npoly))))), gaps=[draw(st.sampled_from([0, 0, 1, 3])) for _ in range(npoly)]),
                ply_ids=draw(st.sampled_from([None, None, [2, 0, 1, 4, 3], [1207, 1207, 3045, 7, 7], [5, 4, 3, 2, 1]])))


def write_ply(fn, polys, ids=None):
    # the number after the word polygon is an identifier chosen by whoever wrote the file, not a position in it
    lines = ['%d polygons' % len(polys), 'pixelization 6s', 'snapped', 'balkanized']
    for i, p in enumerate(polys):
        pid = i if not ids else ids[i % len(ids)]
        lines.append('polygon %d ( %d caps, %r weight, 0 pixel, 1.0 str):' % (pid, len(p['cm']), float(p.get('weight', 1.0))))
        for x, cm in zip(p['x'], p['cm']):
            lines.append(' %s %s %s %s' % tuple(repr(float(t)) for t in (x[0], x[1], x[2], cm)))
    with open(fn, 'w') as f:
        f.write('\n'.join(lines) + '\n')


def write_fits(fn, polys, layout, hibits=False, ifield=True):
    from astropy.io import fits
    n = len(polys)
    if layout == 'one-cap':
        X = np.array([p['x'][0] for p in polys], dtype='f8')
        CM = np.array([p['cm'][0] for p in polys], dtype='f8')
        cx = fits.Column(name='XCAPS', format='3D', array=X)
        cc = fits.Column(name='CMCAPS', format='D', array=CM)
    else:
        mc = max(len(p['cm']) for p in polys)
        mc = max(mc, 2)
        X = np.zeros((n, mc, 3), dtype='f8')
        CM = np.zeros((n, mc), dtype='f8')
        for i, p in enumerate(polys):
            X[i, :len(p['cm']), :] = np.array(p['x'])
            CM[i, :len(p['cm'])] = p['cm']
        cx = fits.Column(name='XCAPS', format='%dD' % (3 * mc), dim='(3,%d)' % mc, array=X)
        cc = fits.Column(name='CMCAPS', format='%dD' % mc, array=CM)
    cols = [cx, cc,
            fits.Column(name='IFIELD', format='J', array=np.arange(n, dtype='i4')),
            fits.Column(name='NCAPS', format='J', array=np.array([len(p['cm']) for p in polys], dtype='i4')),
            fits.Column(name='WEIGHT', format='D', array=np.array([p.get('weight', 1.0) for p in polys], dtype='f8')),
            fits.Column(name='PIXEL', format='J', array=np.zeros(n, dtype='i4')),
            fits.Column(name='STR', format='D', array=np.ones(n)),
            # hibits: a writer that also sets the use-mask bits of the unused (padding) cap slots of a row, up to 31
            fits.Column(name='USE_CAPS', format='J', bzero=2 ** 31,
                        array=np.array([(p['use_caps'] | (((1 << 31) - 1) & ~((1 << len(p['cm'])) - 1))) if hibits else p['use_caps'] for p in polys], dtype='u4'))]
    if not ifield:
        cols = [c for c in cols if c.name != 'IFIELD']        # the column is optional (tables written by older code have none)
    fits.BinTableHDU.from_columns(cols).writeto(fn, overwrite=True)


def write_window(d, polys, layout=None):
    """layout: order in which the polygons' cap blocks are stored in the cap table + number of unused filler caps before each block
    (window_blist.ICAP is what links a polygon to its caps; nothing requires the blocks to be contiguous or in polygon order)"""
    from astropy.table import Table
    ncaps = np.array([len(p['cm']) for p in polys], dtype='i4')
    n = len(polys)
    order = list(layout['order']) if layout else list(range(n))
    gaps = list(layout['gaps']) if layout else [0] * n
    icap = np.zeros(n, dtype='i4')
    Xl, CMl = [], []
    for pos, pi in enumerate(order):
        for _ in range(gaps[pos]):
            Xl.append([0.0, 0.0, 1.0])
            CMl.append(-2.0)                      # filler cap that contains nothing
        icap[pi] = len(CMl)
        Xl.extend(polys[pi]['x'])
        CMl.extend(polys[pi]['cm'])
    Table(dict(IPRIMARY=np.arange(n, dtype='i4'), IBINDX=np.zeros(n, dtype='i4'), NCAPS=ncaps, ICAP=icap,
               WEIGHT=np.array([p.get('weight', 1.0) for p in polys], dtype='f8'), STR=np.ones(n))).write(os.path.join(d, 'window_blist.fits'), overwrite=True)
    X = np.array(Xl, dtype='f8').reshape(-1, 3)
    CM = np.array(CMl, dtype='f8')
    Table(dict(X=X, CM=CM)).write(os.path.join(d, 'window_bcaps.fits'), overwrite=True)


def format_body(case):
    from pydl.pydlutils.mangle import (is_in_polygon, is_in_window, PolygonList, read_fits_polygons, read_mangle_polygons,
                                       FITS_polygon)
    from pydl.photoop.window import window_read
    polys = case['polys']
    arg = to_radec(case['points']) if case['mode'] == 'radec' else np.array(case['points'], dtype='f8')
    Pref = radec_to_xyz(arg) if case['mode'] == 'radec' else arg
    allcaps = [dict(p, use_caps=(1 << len(p['cm'])) - 1) for p in polys]
    want_mask = window_verdict(polys, Pref)
    want_all = window_verdict(allcaps, Pref)

    def window_ok(label, inside, which, want):
        with judge(label):
            which = [int(w) for w in which]
            check(len(which) == len(want), label + ':malformed')
            for k in range(len(want)):
                check(which[k] in want[k], label + ':wrong-polygon',
                      lambda: dict(point=case['points'][k], got=which[k], admissible=sorted(want[k]), layout=case['layout']))
                check(bool(inside[k]) == (which[k] >= 0), label + ':flag-inconsistent')

    with tmpdir() as d:
        fn = os.path.join(d, 'poly.fits')
        write_fits(fn, polys, case['layout'], ifield=not case.get('no_ifield', False))
        raw = call(read_fits_polygons, fn)
        conv = call(read_fits_polygons, fn, convert=True)
        with judge('fits-read'):
            check(isinstance(raw, FITS_polygon) and len(raw) == len(polys), 'fits-raw:malformed')
            check(isinstance(conv, PolygonList) and len(conv) == len(polys), 'fits-converted:malformed')
            for i, p in enumerate(polys):
                check(conv[i].ncaps == len(p['cm']) and np.array_equal(conv[i].x, np.array(p['x']).reshape(-1, 3)) and
                      np.array_equal(conv[i].cm, np.array(p['cm'])) and int(conv[i].use_caps) == p['use_caps'], 'fits-converted:content',
                      lambda: dict(i=i, x=np.asarray(conv[i].x).tolist(), cm=np.asarray(conv[i].cm).tolist(), use_caps=int(conv[i].use_caps), want=p))
        ins, wh = call(is_in_window, raw, arg, what='is_in_window(fits-raw)')
        window_ok('window:fits-raw', ins, wh, want_mask)
        ins, wh = call(is_in_window, conv, arg, what='is_in_window(fits-converted)')
        window_ok('window:fits-converted', ins, wh, want_mask)
        for i, p in enumerate(polys):
            got = call(is_in_polygon, raw[i], arg, what='is_in_polygon(fits-record)')
            with judge('polygon:fits-record'):
                compare_bool(got, poly_verdict(p, Pref), 'polygon:fits-record', lambda k: dict(polygon=p, point=case['points'][k], layout=case['layout']))
        # rows whose use-mask also has bits set for cap slots beyond NCAPS (padding), asked with an ncaps= beyond NCAPS as well:
        # only the polygon's own caps count
        fh = os.path.join(d, 'poly_hi.fits')
        write_fits(fh, polys, case['layout'], hibits=True)
        rawh = call(read_fits_polygons, fh)
        for i, p in enumerate(polys):
            for nc in (0, len(p['cm']) + 1, 40):
                got = call(is_in_polygon, rawh[i], arg, ncaps=nc, what='is_in_polygon(fits-record, padded use-mask)')
                with judge('polygon:fits-record-padded-mask'):
                    compare_bool(got, poly_verdict(p, Pref, nc), 'polygon:fits-record-padded-mask', lambda k: dict(polygon=p, point=case['points'][k], ncaps=nc))
        # formats without a use-mask
        pf = os.path.join(d, 'poly.ply')
        write_ply(pf, polys, ids=case.get('ply_ids'))
        ply = call(read_mangle_polygons, pf)
        with judge('ply-read'):
            check(len(ply) == len(polys), 'ply:count')
            for i, p in enumerate(polys):
                check(np.array_equal(ply[i].x, np.array(p['x']).reshape(-1, 3)) and np.array_equal(ply[i].cm, np.array(p['cm'])),
                      'ply:content', lambda: dict(i=i, x=np.asarray(ply[i].x).tolist(), cm=np.asarray(ply[i].cm).tolist(), want=p))
        ins, wh = call(is_in_window, ply, arg, what='is_in_window(ply)')
        window_ok('window:ply', ins, wh, want_all)
        write_window(d, polys, case.get('captable'))
        os.environ['PHOTO_RESOLVE'] = d
        r = call(window_read, flist=False, balkans=True)
        with judge('window-read'):
            bal = r['balkans']
            check(isinstance(bal, FITS_polygon) and len(bal) == len(polys), 'window-reader:malformed')
        ins, wh = call(is_in_window, bal, arg, what='is_in_window(window-reader)')
        window_ok('window:reader', ins, wh, want_all)


def format_classify(case):
    out = ['layout:' + case['layout'], 'mode:' + case['mode'], 'npoly:%d' % len(case['polys'])]
    ct = case.get('captable')
    if ct and (ct['order'] != sorted(ct['order']) or any(ct['gaps'])):
        out.append('cap-table-not-contiguous-in-polygon-order')
    if any(p['use_caps'] != (1 << len(p['cm'])) - 1 for p in case['polys']):
        out.append('partial-mask')
    if any(c < 0 for p in case['polys'] for c in p['cm']):
        out.append('negative-cap')
    return out


# ------------------------------------------------------------------ set_use_caps
@st.composite
def usecaps_case(draw):
    big = draw(st.integers(0, 7)) == 0
    p = draw(polygon(min_caps=1, max_caps=8)) if not big else draw(polygon(min_caps=33, max_caps=70))     # more caps than bits in an int32 / int64 index
    n = len(p['cm'])
    kind = draw(st.sampled_from(['subset', 'subset', 'perm', 'repeats', 'range']))
    if kind == 'range':
        idx = list(range(n))
    elif kind == 'perm':
        idx = list(draw(st.permutations(list(range(n)))))
    elif kind == 'repeats':
        idx = draw(st.lists(st.integers(0, n - 1), min_size=1, max_size=2 * n))
    else:
        idx = draw(st.lists(st.integers(0, n - 1), unique=True, max_size=n))
    return dict(poly=p, index_list=idx, add=draw(st.booleans()), allow_doubles=draw(st.sampled_from([False, False, True])),
                allow_neg_doubles=draw(st.booleans()), as_array=draw(st.sampled_from([False, 'i4', 'i8', 'i4'])))


def usecaps_oracle(p, idx, add, allow_doubles, allow_neg_doubles, tol=1e-10):
    """Documented semantics; returns None when some pair of caps is within a factor 10 of the tolerance
    (identical-or-not is then a rounding question and nothing is asserted)."""
    use = p['use_caps'] if add else 0
    for i in idx:
        use |= 1 << i
    if not allow_doubles:
        n = len(p['cm'])
        X = np.array(p['x'], dtype='f8').reshape(-1, 3)

        def close(v):
            if 0.1 * tol < v < 10 * tol:
                raise ArithmeticError
            return v < tol
        try:
            for i in range(n):
                if use >> i & 1:
                    for j in range(i + 1, n):
                        if use >> j & 1 and close(float(np.sqrt(((X[i] - X[j]) ** 2).sum()))):
                            same = close(abs(p['cm'][i] - p['cm'][j]))
                            neg = close(abs(p['cm'][i] + p['cm'][j]))
                            if same or (neg and not allow_neg_doubles):
                                use &= ~(1 << j)
        except ArithmeticError:
            return None
    return use


def usecaps_body(case):
    from pydl.pydlutils.mangle import set_use_caps, is_in_polygon
    p = case['poly']
    poly = make_polygon(p)
    # membership is asked before and after the mask is changed on the same object: the answer follows the mask the polygon has now
    probe = np.array([p['x'][i] for i in range(min(len(p['x']), 6))] + [[-v for v in p['x'][0]], [0.0, 0.0, 1.0], [0.6, 0.0, 0.8]], dtype='f8')
    call(is_in_polygon, poly, probe)
    idx = np.array(case['index_list'], dtype='i4' if case['as_array'] is True else case['as_array']) if case['as_array'] else list(case['index_list'])
    got = call(set_use_caps, poly, idx, add=case['add'], allow_doubles=case['allow_doubles'], allow_neg_doubles=case['allow_neg_doubles'])
    want = usecaps_oracle(p, case['index_list'], case['add'], case['allow_doubles'], case['allow_neg_doubles'])
    if want is None:
        note_label('near-tolerance-skipped')
        return
    with judge('set_use_caps'):
        check(int(got) == want, 'set_use_caps:wrong-mask', lambda: dict(got=int(got), want=want, case=case))
        check(int(poly.use_caps) == want, 'set_use_caps:attribute-differs', lambda: dict(attr=int(poly.use_caps), want=want))
    after = call(is_in_polygon, poly, probe)
    with judge('membership-after-set_use_caps'):
        v = poly_verdict(dict(p, use_caps=want), probe)
        compare_bool(after, v, 'set_use_caps:membership-ignores-the-new-mask', lambda k: dict(point=probe[k].tolist(), use_caps=want))


def usecaps_classify(case):
    p = case['poly']
    n = len(p['cm'])
    out = ['add' if case['add'] else 'fresh', 'doubles-allowed' if case['allow_doubles'] else 'doubles-removed']
    if case['index_list'] != list(range(n)):
        out.append('list!=range')
    dup = any(p['x'][i] == p['x'][j] for i in range(n) for j in range(i + 1, n))
    if dup:
        out.append('has-duplicate-axis')
    return out


# ------------------------------------------------------------------ windows as large as the survey's (hundreds of thousands of polygons)
def large_cases(tier):
    for n in ((33000,) if tier == 'quick' else (33000, 70000)):
        for mode in ('xyz', 'radec'):
            yield dict(n=n, mode=mode, probe=[0, 1, 32766, 32767, 32768, 32769, n - 1])


def manypoint_cases(tier):
    for npts in (((1 << 20) + 5,) if tier == 'quick' else ((1 << 20) + 5, (1 << 21) + 3, 3 * (1 << 20) - 1)):
        for mode in ('xyz', 'radec'):
            yield dict(npoints=npts, mode=mode)


def manypoint_body(case):
    """one call with more than a million points (a photometric catalogue against a window): 1009 base positions repeated in a fixed
    order; every copy must get the answer of its base position"""
    from pydl.pydlutils.mangle import is_in_window, PolygonList
    polys = [dict(x=[[0.0, 0.0, 1.0], [1.0, 0.0, 0.0]], cm=[0.5, 1.2], use_caps=3), dict(x=[[0.0, 0.6, 0.8]], cm=[0.3], use_caps=1),
             dict(x=[[0.0, 0.0, 1.0], [0.0, 1.0, 0.0]], cm=[-0.1, 1.0], use_caps=3)]
    nb = 1009
    i = np.arange(nb) + 0.5
    z = 1 - 2 * i / nb
    phi = i * 2.399963229728653
    base = np.stack([np.sqrt(1 - z * z) * np.cos(phi), np.sqrt(1 - z * z) * np.sin(phi), z], 1)
    want = window_verdict(polys, base)
    N = case['npoints']
    idx = (np.arange(N) * 7) % nb
    P = base[idx]
    arg = to_radec(P) if case['mode'] == 'radec' else P
    objs = PolygonList([make_polygon(p) for p in polys])
    inside, which = call(is_in_window, objs, arg)
    with judge('many-points'):
        which = np.asarray(which)
        inside = np.asarray(inside)
        check(which.shape == (N,) and inside.shape == (N,), 'is_in_window:many-points-malformed', lambda: dict(shape=which.shape))
        dec = np.array([(sorted(w)[0] if len(w) == 1 else -2) for w in want])
        exp = dec[idx]
        bad = np.nonzero((exp != -2) & (which != exp))[0]
        check(len(bad) == 0, 'is_in_window:many-points-wrong-polygon', lambda: dict(n_wrong=int(len(bad)), first=int(bad[0]), last=int(bad[-1]), got=int(which[bad[0]]), want=int(exp[bad[0]])))
        check(bool(np.array_equal(inside, which >= 0)), 'is_in_window:many-points-flag-inconsistent')
    note_label('points>2^20')


def large_body(case):
    from pydl.pydlutils.mangle import is_in_window, PolygonList, ManglePolygon
    n = case['n']
    ang = 2 * np.pi * np.arange(n) / n
    X = np.stack([np.cos(ang) * 0.8, np.sin(ang) * 0.8, np.full(n, 0.6)], 1)      # centres 1.5e-4 rad apart on a small circle
    objs = PolygonList([ManglePolygon(x=X[i].reshape(1, 3).copy(), cm=np.array([1e-10]), use_caps=1) for i in range(n)])    # caps of 1.4e-5 rad: disjoint
    pts = np.vstack([X[case['probe']], [[0.0, 0.0, -1.0]]])
    arg = to_radec(pts.tolist()) if case['mode'] == 'radec' else pts
    inside, which = call(is_in_window, objs, arg)
    with judge('large-window'):
        got = [int(v) for v in which]
        check(got == case['probe'] + [-1], 'is_in_window:large-window-wrong-index', lambda: dict(got=got, want=case['probe'] + [-1]))
        check([bool(v) for v in inside] == [True] * len(case['probe']) + [False], 'is_in_window:large-window-flag')


SUBCHECKS = [
    SubCheck('membership', membership_body, strategy=membership_case, classify=membership_classify, nontrivial=membership_nontrivial,
             quick=3000, thorough=150000, shards=(8, 16), floor=0.02,
             doc='is_in_cap / is_in_polygon (ncaps restriction) / is_in_window on in-memory polygons vs the cap inequality'),
    SubCheck('large_window', large_body, kind='exhaustive', cases=large_cases, classify=lambda c: ['n:%d' % c['n'], c['mode']], nontrivial=lambda c, l: True,
             shards=(2, 4), floor=0.0, doc='first-containing-polygon index in a window of 33000 (thorough: 70000) polygons, beyond 16-bit indices'),
    SubCheck('many_points', manypoint_body, kind='exhaustive', cases=manypoint_cases, classify=lambda c: ['n:%d' % c['npoints'], c['mode']], nontrivial=lambda c, l: True,
             shards=(2, 6), floor=0.0, doc='one is_in_window call with more than 2^20 points (thorough: up to 3 x 2^20 - 1): every copy of a base position gets its answer'),
    SubCheck('storage_formats', format_body, strategy=format_case, classify=format_classify,
             quick=240, thorough=8000, shards=(8, 16),
             doc='.ply, FITS (multi-cap and one-cap layout; raw and converted) and window_read balkans give the oracle answers'),
    SubCheck('set_use_caps', usecaps_body, strategy=usecaps_case, classify=usecaps_classify,
             nontrivial=lambda c, l: 'list!=range' in l, quick=3000, thorough=100000, shards=(2, 16),
             doc='index lists (subsets, permutations, repeats) x duplicate/negated caps x add/allow_doubles/allow_neg_doubles'),
]
