"""Independent B-spline reference (Cox-de Boor recursion written from the textbook definition),
cross-checked against scipy.interpolate.BSpline when the module is set up.  Shared by C08-C11."""
import numpy as np


def find_interval(t, k, x, side):
    """index mu with t[mu] <= x < t[mu+1] (side='right') or t[mu] < x <= t[mu+1] (side='left'),
    clamped to the inner intervals [k-1, len(t)-k-1]."""
    n = len(t) - k
    if side == 'right':
        mu = int(np.searchsorted(t, x, side='right')) - 1
    else:
        mu = int(np.searchsorted(t, x, side='left')) - 1
    lo, hi = k - 1, n - 1
    mu = max(lo, min(hi, mu))
    # skip zero-length intervals
    while t[mu] == t[mu + 1] and mu < hi and side == 'right':
        mu += 1
    while t[mu] == t[mu + 1] and mu > lo and side == 'left':
        mu -= 1
    # a repeated lowest breakpoint: the empty leading intervals hold no point, the lower end belongs to the first non-empty one
    while t[mu] == t[mu + 1] and mu < hi:
        mu += 1
    return mu


def nonzero_basis(t, k, x, mu):
    """values of the k basis functions B_{mu-k+1..mu} of order k at x (interval mu), by the recursion
    B_{i,1} = 1 on the interval, B_{i,r}(x) = (x-t_i)/(t_{i+r-1}-t_i) B_{i,r-1} + (t_{i+r}-x)/(t_{i+r}-t_{i+1}) B_{i+1,r-1}."""
    b = np.zeros(k + 1)
    b[0] = 1.0
    for r in range(1, k):
        # after this pass b[0..r] hold B_{mu-r..mu, r+1}
        new = np.zeros(k + 1)
        for j in range(r + 1):
            i = mu - r + j            # index of the basis function of order r+1
            left = 0.0
            if j > 0:                 # B_{i, r} exists in the previous row at position j-1
                den = t[i + r] - t[i]
                if den > 0:
                    left = (x - t[i]) / den * b[j - 1]
            right = 0.0
            if j < r:                 # B_{i+1, r} at position j
                den = t[i + r + 1] - t[i + 1]
                if den > 0:
                    right = (t[i + r + 1] - x) / den * b[j]
            new[j] = left + right
        b = new
    return b[:k]


def design(t, k, x, side='right'):
    """dense design matrix A[i, j] = B_{j,k}(x_i) for x inside [t[k-1], t[-k]]"""
    t = np.asarray(t, dtype='f8')
    x = np.asarray(x, dtype='f8')
    n = len(t) - k
    A = np.zeros((len(x), n))
    for i, xv in enumerate(x):
        mu = find_interval(t, k, xv, side)
        A[i, mu - k + 1:mu + 1] = nonzero_basis(t, k, xv, mu)
    return A


def spline_value(t, c, k, x, side='right'):
    return design(t, k, x, side).dot(np.asarray(c, dtype='f8'))


def selfcheck():
    from scipy.interpolate import BSpline
    rng = np.random.RandomState(12345)
    for k in range(1, 7):
        inner = np.sort(rng.uniform(0, 10, 6))
        t = np.concatenate([inner[0] - np.arange(k - 1, 0, -1), inner, inner[-1] + np.arange(1, k)])
        c = rng.normal(size=len(t) - k)
        x = rng.uniform(inner[0], inner[-1], 40)
        ref = BSpline(t, c, k - 1, extrapolate=False)(x)
        got = spline_value(t, c, k, x)
        if not np.allclose(got, ref, rtol=1e-11, atol=1e-12):
            raise RuntimeError('bslib disagrees with scipy BSpline for order %d' % k)
        A = design(t, k, x)
        if (A < -1e-15).any() or not np.allclose(A.sum(1), 1.0, atol=1e-12):
            raise RuntimeError('bslib basis is not a partition of unity for order %d' % k)


def weighted_lstsq(A, y, w):
    sw = np.sqrt(w)
    sol, res, rank, sv = np.linalg.lstsq(A * sw[:, None], y * sw, rcond=None)
    return sol, rank, sv
