"""Shared geometry oracle and point-set generators for C04, C05 (and helpers for C12, C18)."""
import math

import numpy as np
from hypothesis import strategies as st


def unit(ra, dec):
    r = np.deg2rad(np.asarray(ra, dtype='f8'))
    d = np.deg2rad(np.asarray(dec, dtype='f8'))
    return np.stack([np.cos(d) * np.cos(r), np.cos(d) * np.sin(r), np.sin(d)], -1)


def sepmat(ra1, dec1, ra2, dec2):
    """Great-circle separations in degrees from unit vectors: atan2(|a x b|, a.b)
    (independent of pydl's haversine gcirc)."""
    a = unit(ra1, dec1)
    b = unit(ra2, dec2)
    cr = np.linalg.norm(np.cross(a[:, None, :], b[None, :, :]), axis=-1)
    dt = (a[:, None, :] * b[None, :, :]).sum(-1)
    return np.rad2deg(np.arctan2(cr, dt))


REL = 1e-7       # relative tolerance band around a decision threshold
ABS = 1e-11      # degrees


def below(S, L):
    return S < L * (1 - REL) - ABS


def above(S, L):
    return S > L * (1 + REL) + ABS


unitf = st.floats(-1.0, 1.0, allow_nan=False, width=64)


def _wrap(ra):
    ra = math.fmod(ra, 360.0)
    if ra < 0:
        ra += 360.0
    if ra >= 360.0:
        ra = 0.0
    return ra


def _clipdec(dec):
    return max(-89.9999, min(89.9999, dec))


@st.composite
def point_sets(draw, length, nmin=2, nmax=30, two_lists=True, n2max=30, families=None):
    """Returns dict(family, ra1, dec1, [ra2, dec2], extent) -- coordinates are plain float lists."""
    fam = draw(st.sampled_from(families or ['cluster', 'cluster', 'seam', 'seam', 'polar', 'allsky', 'lattice', 'copy', 'chain']))
    n1 = draw(st.integers(nmin, nmax))
    n2 = draw(st.integers(1, n2max)) if two_lists else 0
    L = length

    def offsets(n, scale, center):
        pts = []
        cosd = max(math.cos(math.radians(center[1])), 1e-3)
        for _ in range(n):
            dx, dy = draw(unitf), draw(unitf)
            pts.append((_wrap(center[0] + dx * scale / cosd), _clipdec(center[1] + dy * scale)))
        return pts

    if fam == 'allsky':
        def sky(n):
            return [(_wrap(180.0 * (1 + draw(unitf))), _clipdec(math.degrees(math.asin(draw(unitf))))) for _ in range(n)]
        p1, p2 = sky(n1), sky(n2)
    elif fam in ('cluster', 'seam', 'polar', 'copy'):
        if fam == 'seam':
            c = (draw(st.sampled_from([0.0, 359.999, 0.001, 359.5, 0.5])), 70 * draw(unitf))
        elif fam == 'polar':
            c = (180.0 * (1 + draw(unitf)), draw(st.sampled_from([-1, 1])) * (89.999 - 5 * abs(draw(unitf))))
        else:
            c = (180.0 * (1 + draw(unitf)), 80 * draw(unitf))
        scale = L * draw(st.sampled_from([0.3, 1.0, 2.0, 5.0, 12.0]))
        p1 = offsets(n1, scale, c)
        if fam == 'copy' and two_lists:
            p2 = []
            for k in range(n2):
                b = p1[k % n1]
                r = L * draw(st.sampled_from([0.0, 0.1, 0.5, 0.9, 0.99, 1.01, 1.1, 2.0]))
                ang = math.pi * draw(unitf)
                cosd = max(math.cos(math.radians(b[1])), 1e-3)
                p2.append((_wrap(b[0] + r * math.cos(ang) / cosd), _clipdec(b[1] + r * math.sin(ang))))
        else:
            p2 = offsets(n2, scale, c)
    elif fam == 'lattice':
        # pitch = half a chunk (the caller passes chunk through `lattice_pitch`), points on / next to cell edges
        pitch = draw(st.sampled_from([2.0, 4.0, 8.0])) * L
        c = (draw(st.sampled_from([0.0, 359.0, 120.0, 251.3])), draw(st.sampled_from([0.0, -30.0, 45.0, 60.0])))
        cosd = math.cos(math.radians(c[1]))

        def lat(n):
            pts = []
            for _ in range(n):
                i, j = draw(st.integers(0, 5)), draw(st.integers(0, 5))
                e1 = draw(st.sampled_from([0.0, 0.0, 1e-9, -1e-9, 0.45, -0.45, 0.3])) * L
                e2 = draw(st.sampled_from([0.0, 0.0, 1e-9, -1e-9, 0.45, -0.45, 0.3])) * L
                pts.append((_wrap(c[0] + (i * pitch + e1) / cosd), _clipdec(c[1] + j * pitch + e2)))
            return pts
        p1, p2 = lat(n1), lat(n2)
    elif fam == 'polar-ring':
        # a ring of first-list points just below a polar cap of the chunk grid; each second-list point sits 0.97-0.9995 match
        # lengths from one of them, mostly along RA and slightly equatorward: pairs that straddle RA cell edges where the
        # margin has to be computed with the most polar declination of the slice
        sgn = draw(st.sampled_from([1, -1]))
        d0 = 90.0 - L * draw(st.sampled_from([3.5, 4.0, 5.0, 6.5]))
        d0 = max(60.0, d0)
        ra0 = 180.0 * (1 + draw(unitf))
        p1 = [(_wrap(ra0 + 360.0 * k / n1 + 3 * draw(unitf)), sgn * _clipdec(d0 + 0.2 * L * draw(unitf))) for k in range(n1)]
        p2 = []
        for k in range(n2):
            b = p1[k % n1]
            f = draw(st.sampled_from([0.97, 0.985, 0.99, 0.995, 0.999, 0.9995, 1.001, 1.01]))
            brg = math.radians(draw(st.sampled_from([90.0, -90.0, 80.0, -80.0, 100.0, -100.0, 95.0, -95.0])) + 5 * draw(unitf))
            d1 = math.radians(abs(b[1]))
            s_ = math.radians(f * L)
            sd2 = max(-1.0, min(1.0, math.sin(d1) * math.cos(s_) + math.cos(d1) * math.sin(s_) * math.cos(brg)))
            d2 = math.asin(sd2)
            r2 = b[0] + math.degrees(math.atan2(math.sin(brg) * math.sin(s_) * math.cos(d1), math.cos(s_) - math.sin(d1) * sd2))
            p2.append((_wrap(r2), sgn * _clipdec(math.degrees(d2))))
    elif fam == 'slice-edge':
        # for lengths >= 22.5 deg and the default chunk size (4 L >= 90 deg) the chunk grid is clamped to both poles; with first-list
        # declinations inside +-30 deg it has three slices with edges at +-30 deg, and the RA cells of the middle slice end on
        # multiples of 60 deg.  First-list points sit just inside that slice at its most polar declination next to such RA edges,
        # their partners at the same declination a stated fraction of L away across the edge: the place where the RA margin of the
        # chunk assignment has to be exact (marginSize/cos(dec) is tens of degrees here)
        p1, p2 = [], []
        for k in range(max(n1 // 2, 1)):
            sgn = draw(st.sampled_from([1, -1]))
            d = sgn * (30.0 - draw(st.sampled_from([1e-9, 0.01, 0.3, 1e-9])))
            edge = 60.0 * draw(st.integers(0, 5))
            side = draw(st.sampled_from([1, -1]))
            eps = draw(st.sampled_from([1e-6, 1e-3, 0.2]))
            a = (_wrap(edge + side * eps), d)
            f = draw(st.sampled_from([0.996, 0.998, 0.9995, 0.99, 1.002, 0.9]))
            dra = 2 * math.degrees(math.asin(min(1.0, math.sin(math.radians(f * L) / 2) / math.cos(math.radians(d)))))
            b = (_wrap(a[0] - side * dra), d)
            p1.append(a)
            p2.append(b)
        for _ in range(n1 - len(p1)):
            p1.append((_wrap(180.0 * (1 + draw(unitf))), 29.0 * draw(unitf)))
        if not two_lists:
            p1 = list(draw(st.permutations(p1 + p2)))
            p2 = []
    elif fam == 'across-pole':
        # first list: a strip along one meridian from next to a pole to 10-20 lengths away from it (confined in RA, so the top slices of the
        # chunk grid do not wrap around); second list: points on the far side of the pole (RA + 150..210 deg) whose distance from a first-list
        # point, measured across the pole, is a stated fraction of the length
        sgn = draw(st.sampled_from([-1, 1]))
        ra0 = 180.0 * (1 + draw(unitf))
        reach = L * draw(st.sampled_from([10.0, 20.0, 14.0]))
        p1 = []
        for k in range(n1):
            pd = min(60.0, L * draw(st.sampled_from([0.05, 0.2, 0.4, 0.7])) if k < max(2, n1 // 3) else reach * (k + 1.0) / n1)
            p1.append((_wrap(ra0 + 0.3 * L * draw(unitf)), sgn * (90.0 - pd)))
        p2 = []
        for k in range(n2):
            b = p1[k % max(2, n1 // 3)]
            f = draw(st.sampled_from([0.7, 0.9, 0.99, 1.01, 0.5, 1.3]))
            pd1 = 90.0 - abs(b[1])
            pd2 = max(f * L - pd1, 0.01 * L)
            p2.append((_wrap(b[0] + 180.0 + 30.0 * draw(unitf)), sgn * (90.0 - pd2)))
    elif fam in ('pole-exact', 'pole-near'):
        # one or two points exactly on a pole (dec = +-90, any RA) and the rest on small circles around it whose radius is a
        # stated multiple of the length; separations from the pole are exactly those radii
        sgn = draw(st.sampled_from([1, -1]))

        def cap(n, k_on_pole):
            pts = []
            for k in range(n):
                ra = _wrap(180.0 * (1 + draw(unitf)))
                if k < k_on_pole:
                    # exactly on the pole, or (pole-near, also valid where |Dec| < 90 is required) a hair away from it
                    pts.append((ra, sgn * (90.0 if fam == 'pole-exact' else 90.0 - draw(st.sampled_from([1.4210854715202004e-14, 1e-13, 1e-9, 1e-6, 2e-5])))))
                else:
                    f = draw(st.sampled_from([0.5, 0.9, 0.99, 1.01, 1.5, 0.3, 3.0, 7.0]))
                    pts.append((ra, sgn * max(0.0, 90.0 - f * L)))
            return pts
        p1 = list(draw(st.permutations(cap(n1, draw(st.sampled_from([1, 1, 2]))))))
        p2 = cap(n2, draw(st.sampled_from([0, 1]))) if two_lists else []
    else:  # chain: consecutive separations 0.7-1.1 L along a direction, shuffled
        c = (draw(st.sampled_from([0.0, 359.9, 100.0, 200.0])) + draw(unitf), 75 * draw(unitf))
        ang = draw(st.sampled_from([0.0, math.pi / 2, math.pi / 4, 2.0]))
        cosd = max(math.cos(math.radians(c[1])), 1e-3)
        pos = 0.0
        p1 = []
        for _ in range(n1):
            p1.append((_wrap(c[0] + pos * math.cos(ang) / cosd), _clipdec(c[1] + pos * math.sin(ang) + 0.02 * L * draw(unitf))))
            pos += L * draw(st.sampled_from([0.7, 0.8, 0.95, 0.999, 1.001, 1.05, 1.1]))
        p1 = draw(st.permutations(p1))
        p2 = offsets(n2, 3 * L, c) if two_lists else []
    out = dict(family=fam, ra1=[p[0] for p in p1], dec1=[p[1] for p in p1])
    if two_lists:
        out.update(ra2=[p[0] for p in p2], dec2=[p[1] for p in p2])
    return out


def grid_cells(ra, dec, chunk):
    """Upper bound of the number of cells chunks() will allocate (memory guard, see DESIGN)."""
    dec = np.asarray(dec)
    ndec = 3 + int((dec.max() - dec.min()) / chunk)
    return ndec * (3 + int(360.0 / chunk))


def safe_chunksize(ra, dec, chunk, limit=20000):
    while grid_cells(ra, dec, chunk) > limit:
        chunk *= 1.5
    return chunk
