"""C18 -- great-circle distance and SDSS great-circle coordinates are geometrically exact."""
import math

import numpy as np
from hypothesis import strategies as st

from vk import SubCheck, Violation, call, judge, check, note_label

PROPERTY = 'C18'
LEVEL = 'exploration'
RULE = ('gcirc: Hypothesis point pairs built as (point, bearing, separation) with separation 10^U(-10, 2.2553) deg, Dec incl. +-90, '
        'exact coincident and antipodal pairs, all three unit conventions, scalar and array calls; reference = Vincenty formula '
        'evaluated in 80-bit extended precision on the same inputs.  mu/nu: stripes 0..90, uniform sky points, poles, node points, '
        'nu=0 points; reference = explicit rotation Rx(incl) after shifting RA by the node (SDSS survey-coordinate definition written '
        'out independently), round trip, isometry, nu=0 great circle.  Angles<->vectors: phi any real, theta in [0,180] incl. poles and '
        'values within 1e-8 deg of them, RA/Dec form.  Non-trivial = separation < 1 arcsec or > 179 deg, |Dec| > 89, stripe with non-zero '
        'inclination, angles within 0.01 deg of a pole.')
RULE += '  Also: broadcasting calls of gcirc (point vs vector, column vs row, RA array with scalar Dec), 2-D coordinate arrays and positions with a distance for the mu/nu transform.'
RULE += ' Round 5: unsigned RA / signed Dec integer arrays for gcirc.'
ASSUMPTIONS = ['gcirc tolerance = 1e-6 relative + 1e-9 arcsec absolute (the absolute floor is the rounding of coordinates of order 1 rad '
               'when they are converted to radians in double precision, which no double-precision implementation can avoid)',
               'numpy longdouble is the x87 80-bit type on this platform (eps 1.1e-19); checked at start-up',
               'angle round trips: theta to 1e-9 deg away from the poles and 2e-6 deg within 0.01 deg of them (arccos resolution); phi '
               'compared modulo 360 with tolerance 1e-9/sin(theta) deg',
               'mu/nu transforms compared with the reference to 1e-9 deg on the sphere (round trip 1e-6 arcsec), relaxed to 3e-6 deg for points within '
               '0.1 deg of a pole of either coordinate system, where an arcsin-based latitude resolves only sqrt(eps)']

uf = st.floats(-1.0, 1.0, allow_nan=False)
LD = np.longdouble


def setup():
    if np.finfo(LD).eps > 2e-19:
        raise RuntimeError('longdouble is not extended precision on this platform')


def vincenty_ld(ra1, dec1, ra2, dec2):
    """separation in radians, inputs in radians as longdouble arrays"""
    dra = ra2 - ra1
    s1, c1, s2, c2 = np.sin(dec1), np.cos(dec1), np.sin(dec2), np.cos(dec2)
    num = np.sqrt((c2 * np.sin(dra)) ** 2 + (c1 * s2 - s1 * c2 * np.cos(dra)) ** 2)
    den = s1 * s2 + c1 * c2 * np.cos(dra)
    return np.arctan2(num, den)


PI_LD = LD('3.14159265358979323846264338327950288')


@st.composite
def gcirc_case(draw):
    n = draw(st.integers(1, 6))
    pairs = []
    for _ in range(n):
        ra1 = 180.0 * (1 + draw(uf))
        dec1 = draw(st.one_of(st.sampled_from([90.0, -90.0, 0.0, 89.99999, -89.9999999]), uf.map(lambda v: 90.0 * v)))
        kind = draw(st.sampled_from(['sep', 'sep', 'sep', 'same', 'antipode']))
        if kind == 'same':
            ra2, dec2 = ra1, dec1
        elif kind == 'antipode':
            ra2, dec2 = ra1 + 180.0 if ra1 < 180 else ra1 - 180.0, -dec1
        else:
            s = math.radians(min(180.0, 10 ** (draw(st.integers(-100000, 22553)) / 10000.0)))
            b = math.pi * draw(uf)
            d1 = math.radians(dec1)
            sd2 = max(-1.0, min(1.0, math.sin(d1) * math.cos(s) + math.cos(d1) * math.sin(s) * math.cos(b)))
            d2 = math.asin(sd2)
            ra2 = ra1 + math.degrees(math.atan2(math.sin(b) * math.sin(s) * math.cos(d1), math.cos(s) - math.sin(d1) * sd2))
            dec2 = math.degrees(d2)
        pairs.append([ra1, dec1, ra2, dec2])
    return dict(pairs=pairs, units=draw(st.sampled_from([0, 1, 2])), scalar=draw(st.booleans()), broadcast=draw(st.sampled_from([False, False, True])), narrow_int=draw(st.booleans()))


def gcirc_body(case):
    from pydl.goddard.astro import gcirc
    P = np.array(case['pairs'], dtype='f8')
    units = case['units']
    # the inputs handed to gcirc in the chosen convention (these doubles ARE the points)
    if units == 0:
        a = np.deg2rad(P)
    elif units == 1:
        a = P.copy()
        a[:, 0] /= 15.0
        a[:, 2] /= 15.0
    else:
        a = P.copy()
    al = a.astype(LD)
    if units == 0:
        r = al
    else:
        r = al * (PI_LD / 180)
        if units == 1:
            r[:, 0] *= 15
            r[:, 2] *= 15
    ref = vincenty_ld(r[:, 0], r[:, 1], r[:, 2], r[:, 3])           # radians, extended precision
    ref_out = ref if units == 0 else ref * (180 / PI_LD) * 3600
    floor = 1e-9 / 3600 * math.pi / 180 if units == 0 else 1e-9      # 1e-9 arcsec
    if case['scalar']:
        got = np.array([call(gcirc, float(x[0]), float(x[1]), float(x[2]), float(x[3]), units=units) for x in a])
        rev = np.array([call(gcirc, float(x[2]), float(x[3]), float(x[0]), float(x[1]), units=units) for x in a])
    else:
        got = np.asarray(call(gcirc, a[:, 0], a[:, 1], a[:, 2], a[:, 3], units=units))
        rev = np.asarray(call(gcirc, a[:, 2], a[:, 3], a[:, 0], a[:, 1], units=units))
    if units in (1, 2) and not case['scalar']:
        # catalogue columns of whole degrees / hours held in integer arrays (unsigned RA, signed Dec)
        ai = np.round(a)
        ai[:, 0] %= (24 if units == 1 else 360)          # unsigned columns hold RA in [0, 24) h / [0, 360) deg
        ai[:, 2] %= (24 if units == 1 else 360)
        ai[:, 1] = np.clip(ai[:, 1], -90, 90)
        ai[:, 3] = np.clip(ai[:, 3], -90, 90)
        # (32-bit columns; or, where the numbers fit, the narrowest types that hold them: hours / degrees below 256 unsigned, declinations signed 8-bit)
        narrow = units == 1 or bool(np.all(ai[:, [0, 2]] < 256))
        rt, dt_ = ('u1', 'i1') if narrow and case.get('narrow_int') else ('u4', 'i4')
        gi = np.asarray(call(gcirc, ai[:, 0].astype(rt), ai[:, 1].astype(dt_), ai[:, 2].astype(rt), ai[:, 3].astype(dt_), units=units), dtype='f8')
        note_label('integer-columns:' + rt)
        # round 12: the same whole numbers with the columns in different types in one call (float64 right ascensions next to 8-bit
        # declinations, a float reference position against an integer catalogue): the same distances
        mixes = [('f8', dt_, 'f8', dt_), (rt, 'f8', rt, 'f8'), ('f8', 'f8', rt, dt_), (rt, dt_, 'f8', 'f8')]
        mx = mixes[int(abs(float(a[0, 0])) * 1000) % len(mixes)]
        gm = np.asarray(call(gcirc, ai[:, 0].astype(mx[0]), ai[:, 1].astype(mx[1]), ai[:, 2].astype(mx[2]), ai[:, 3].astype(mx[3]), units=units), dtype='f8')
        with judge('gcirc-mixed-column-types'):
            check(gm.shape == gi.shape and bool(np.all(np.abs(gm - gi) <= 1e-6 * np.abs(gi) + 1e-3)), 'gcirc:columns-of-mixed-types-give-other-distances',
                  lambda: dict(units=units, types=mx, mixed=gm.tolist()[:4], all_integer=gi.tolist()[:4]))
        ri = ai.astype(LD) * (PI_LD / 180)
        if units == 1:
            ri[:, 0] *= 15
            ri[:, 2] *= 15
        refi = vincenty_ld(ri[:, 0], ri[:, 1], ri[:, 2], ri[:, 3]) * (180 / PI_LD) * 3600
        with judge('gcirc-integer-arrays'):
            check(bool(np.all(np.abs(gi.astype(LD) - refi) <= 1e-6 * refi + floor)), 'gcirc:integer-arrays-wrong-distance',
                  lambda: dict(units=units, got=gi.tolist(), want=[float(v) for v in refi]))
    if not case['scalar']:
        # catalogue columns in single precision: the float32 numbers are the points; the distance is never NaN (also with one point exactly on
        # a pole) and as good as single-precision arithmetic on O(1 rad) coordinates allows (1e-5 relative + 1 arcsec)
        a4 = a.astype('f4')
        g4 = np.asarray(call(gcirc, a4[:, 0], a4[:, 1], a4[:, 2], a4[:, 3], units=units), dtype='f8')
        r4 = a4.astype(LD) if units == 0 else a4.astype(LD) * (PI_LD / 180) * np.array([15 if units == 1 else 1, 1, 15 if units == 1 else 1, 1], dtype=LD)
        ref4 = vincenty_ld(r4[:, 0], r4[:, 1], r4[:, 2], r4[:, 3])
        ref4 = ref4 if units == 0 else ref4 * (180 / PI_LD) * 3600
        with judge('gcirc-float32'):
            check(g4.shape == (len(a),) and not np.isnan(g4).any(), 'gcirc:nan-for-single-precision-input', lambda: dict(units=units, points=a4.tolist(), got=g4.tolist()))
            # (towards the antipode the arcsine loses digits: an error of 1e-7 in sin(d/2) is 2e-7 / cos(d/2) in d, at most ~1e-3 rad)
            ref4_rad = np.asarray(ref4 if units == 0 else ref4 / 3600 * (PI_LD / 180), dtype='f8')
            slack = np.minimum(2e-3, 1e-6 / np.maximum(np.cos(ref4_rad / 2), 1e-12)) + math.radians(1 / 3600.0)
            slack = slack if units == 0 else np.degrees(slack) * 3600
            check(bool(np.all(np.abs(g4.astype(LD) - ref4) <= 1e-5 * ref4 + slack)), 'gcirc:single-precision-input-wrong-distance',
                  lambda: dict(units=units, got=g4.tolist(), want=[float(v) for v in ref4]))
    if units == 2 and not case['scalar']:
        # "array-like": the default convention (degrees) accepts plain Python lists of coordinates
        gl = np.asarray(call(gcirc, a[:, 0].tolist(), a[:, 1].tolist(), a[:, 2].tolist(), a[:, 3].tolist()), dtype='f8')
        with judge('gcirc-lists'):
            check(gl.shape == got.shape and bool(np.array_equal(gl, got)), 'gcirc:lists-differ-from-arrays', lambda: dict(lists=gl.tolist(), arrays=got.tolist()))
    if case.get('broadcast') and len(a) > 1:
        # one reference point (scalars) against a vector of points, and a column against a row: ordinary NumPy broadcasting
        one = np.asarray(call(gcirc, float(a[0, 0]), float(a[0, 1]), a[:, 2], a[:, 3], units=units))
        r0 = al[0] if units == 0 else al[0] * (PI_LD / 180) * np.array([15 if units == 1 else 1, 1, 15 if units == 1 else 1, 1], dtype=LD)
        refb = vincenty_ld(r0[0], r0[1], r[:, 2], r[:, 3])
        refb = refb if units == 0 else refb * (180 / PI_LD) * 3600
        grid = np.asarray(call(gcirc, a[:, 0][:, None], a[:, 1][:, None], a[:, 2][None, :], a[:, 3][None, :], units=units))
        # RA and Dec of one point with different shapes: a strip of constant declination against one point
        strip = np.asarray(call(gcirc, a[:, 0], float(a[0, 1]), float(a[0, 2]), float(a[0, 3]), units=units))
        refs = vincenty_ld(r[:, 0], r0[1], r0[2], r0[3])
        refs = refs if units == 0 else refs * (180 / PI_LD) * 3600
        # points along one parallel / one meridian: the RA pair has one element per point, the Dec pair is a one-element array (and the
        # other way round)
        par = np.asarray(call(gcirc, a[:, 0], a[:1, 1], a[:, 2], a[:1, 1], units=units))
        mer = np.asarray(call(gcirc, a[:1, 0], a[:, 1], a[:1, 0], a[:, 3], units=units))
        refp = vincenty_ld(r[:, 0], r0[1], r[:, 2], r0[1])
        refm = vincenty_ld(r0[0], r[:, 1], r0[0], r[:, 3])
        refp, refm = (refp, refm) if units == 0 else (refp * (180 / PI_LD) * 3600, refm * (180 / PI_LD) * 3600)
        with judge('gcirc-parallel-meridian'):
            check(par.shape == (len(a),) and mer.shape == (len(a),), 'gcirc:parallel-meridian-shape', str((par.shape, mer.shape)))
            check(bool(np.all(np.abs(par.astype(LD) - refp) <= 1e-6 * refp + floor)) and bool(np.all(np.abs(mer.astype(LD) - refm) <= 1e-6 * refm + floor)),
                  'gcirc:parallel-meridian-wrong-distance', lambda: dict(units=units))
        with judge('gcirc-strip'):
            check(strip.shape == (len(a),), 'gcirc:strip-shape', str(strip.shape))
            check(bool(np.all(np.abs(strip.astype(LD) - refs) <= 1e-6 * refs + floor)), 'gcirc:strip-wrong-distance', lambda: dict(units=units))
        with judge('gcirc-broadcast'):
            check(one.shape == (len(a),), 'gcirc:broadcast-shape', str(one.shape))
            check(bool(np.all(np.abs(one.astype(LD) - refb) <= 1e-6 * refb + floor)), 'gcirc:broadcast-wrong-distance', lambda: dict(units=units))
            check(grid.shape == (len(a), len(a)) and bool(np.all(np.abs(np.diag(grid) - got) <= 1e-12 * np.maximum(got, 1e-300) + 1e-300)), 'gcirc:broadcast-grid-wrong',
                  lambda: dict(shape=grid.shape))
    with judge('gcirc'):
        check(got.shape == (len(a),), 'gcirc:shape', str(got.shape))
        check(not np.isnan(got).any(), 'gcirc:nan', lambda: dict(pairs=case['pairs'], got=got.tolist()))
        full = math.pi if units == 0 else 180 * 3600.0
        check(bool(np.all(got >= 0) and np.all(got <= full * (1 + 1e-15))), 'gcirc:out-of-range', lambda: dict(got=got.tolist()))
        check(np.array_equal(got, rev), 'gcirc:not-symmetric', lambda: dict(got=got.tolist(), rev=rev.tolist()))
        for k in range(len(a)):
            same = a[k, 0] == a[k, 2] and a[k, 1] == a[k, 3]
            if same:
                check(got[k] == 0, 'gcirc:identical-points-not-zero', lambda: dict(pair=case['pairs'][k], got=float(got[k])))
            err = abs(LD(got[k]) - ref_out[k])
            check(err <= 1e-6 * ref_out[k] + floor, 'gcirc:wrong-distance',
                  lambda: dict(pair=case['pairs'][k], units=units, got=float(got[k]), want=float(ref_out[k]), rel=float(err / max(ref_out[k], LD(1e-300)))))
    sep_as = np.asarray(ref * (180 / PI_LD) * 3600, dtype='f8')
    if (sep_as < 1).any() and (sep_as > 0).any():
        note_label('sep<1arcsec')
    if (sep_as > 179 * 3600).any():
        note_label('sep>179deg')
    if (np.abs(P[:, [1, 3]]) > 89).any():
        note_label('|dec|>89')


def gcirc_classify(case):
    return ['units:%d' % case['units'], 'scalar' if case['scalar'] else 'array', 'broadcast' if case.get('broadcast') else 'elementwise']


def gcirc_nontrivial(case, labels):
    return bool({'sep<1arcsec', 'sep>179deg', '|dec|>89'} & set(labels))


# ------------------------------------------------------------------ mu / nu
@st.composite
def munu_case(draw):
    stripe = draw(st.one_of(st.integers(0, 90), st.sampled_from([0, 9, 10, 46, 47, 81, 82, 86])))
    n = draw(st.integers(2, 8))
    pts = []
    for _ in range(n):
        k = draw(st.integers(0, 5))
        if k == 0:
            pts.append([draw(st.sampled_from([95.0, 275.0, 0.0, 5.0, 185.0])), draw(st.sampled_from([0.0, 90.0, -90.0, 45.0]))])
        elif k == 1 and draw(st.booleans()):
            # a pole of the stripe's own great circle (nu = +-90): RA 5 or 185, Dec = +-(90 - |inclination|)
            inc = incl_of(stripe)
            pts.append([draw(st.sampled_from([5.0, 185.0])), draw(st.sampled_from([1.0, -1.0])) * (90.0 - abs(inc))])
        else:
            pts.append([180.0 * (1 + draw(uf)), math.degrees(math.asin(draw(uf)))])
    mus = [180.0 * (1 + draw(uf)) for _ in range(draw(st.integers(1, 4)))]
    return dict(stripe=stripe, points=pts, mus=mus, grid2d=draw(st.sampled_from([False, False, True])),
                distance=draw(st.sampled_from([None, None, 0.5, 3.0, 1.0])), rep=draw(st.sampled_from(['spherical', 'spherical', 'cartesian'])),
                stripe_type=draw(st.sampled_from(['int', 'int', 'uint8', 'int64', 'uint16', 'float'])), touch_incl=draw(st.sampled_from([False, False, True])), setitem=draw(st.sampled_from([False, False, True])))


def unit_radec(ra, dec):
    r, d = np.radians(ra), np.radians(dec)
    return np.stack([np.cos(d) * np.cos(r), np.cos(d) * np.sin(r), np.sin(d)], -1)


def angsep_deg(a, b):
    return np.degrees(np.arctan2(np.linalg.norm(np.cross(a, b), axis=-1), (a * b).sum(-1)))


def tol_deg(*lats):
    """arcsin-based latitudes resolve only sqrt(eps) ~ 1e-6 deg within 0.1 deg of a pole of either system"""
    worst = np.max(np.abs(np.stack([np.broadcast_to(np.asarray(l, dtype='f8'), np.shape(lats[0])) for l in lats])), axis=0)
    return np.where(worst > 89.9, 3e-6, 1e-9)


def incl_of(stripe):
    eta = stripe * 2.5 - 57.5
    if stripe > 46:
        eta -= 180.0
    return eta + 32.5


def munu_body(case):
    import astropy.units as u
    from astropy.coordinates import ICRS
    from pydl.pydlutils.coord import SDSSMuNu, stripe_to_incl
    s = case['stripe']
    P = np.array(case['points'], dtype='f8')
    node = 95.0
    # the stripe number as it comes out of a table column: a Python int, or a numpy (also unsigned) integer, or a float
    s_arg = {'int': int, 'uint8': np.uint8, 'int64': np.int64, 'uint16': np.uint16, 'float': float}[case.get('stripe_type', 'int')](s)
    inc = call(stripe_to_incl, s_arg)
    with judge('incl'):
        check(abs(float(inc) - incl_of(s)) < 1e-12, 'stripe_to_incl', lambda: dict(stripe=s, got=float(inc), want=incl_of(s)))
    ci, si = math.cos(math.radians(incl_of(s))), math.sin(math.radians(incl_of(s)))
    # reference: rotate about z by -node, then about x by incl
    v = unit_radec(P[:, 0] - node, P[:, 1])
    w = np.stack([v[:, 0], v[:, 1] * ci + v[:, 2] * si, -v[:, 1] * si + v[:, 2] * ci], -1)
    shp = (len(P),)
    if case.get('grid2d'):
        # positions handed over as a 2-D (image-shaped) coordinate array
        k = 3 if len(P) % 3 == 0 else (2 if len(P) % 2 == 0 else 1)
        shp = (k, len(P) // k)
    if case.get('rep') == 'cartesian':
        # the same directions entered as Cartesian components (unit vectors, or scaled by a distance)
        from astropy.coordinates import CartesianRepresentation
        v = unit_radec(P[:, 0], P[:, 1]).reshape(shp + (3,)) * (case.get('distance') or 1.0)
        icrs = ICRS(CartesianRepresentation(v[..., 0], v[..., 1], v[..., 2], unit=u.kpc if case.get('distance') else u.dimensionless_unscaled))
    elif case.get('distance'):
        # positions that carry a distance: the direction is what is transformed
        icrs = ICRS(ra=P[:, 0].reshape(shp) * u.deg, dec=P[:, 1].reshape(shp) * u.deg, distance=np.full(shp, case['distance']) * u.kpc)
    else:
        icrs = ICRS(ra=P[:, 0].reshape(shp) * u.deg, dec=P[:, 1].reshape(shp) * u.deg)
    if case.get('touch_incl'):
        # a caller that asked an earlier frame of this stripe for its inclination and did arithmetic in place on what it got (its own copy):
        # later frames of the stripe must not be affected
        try:
            a_ = SDSSMuNu(stripe=s_arg).incl
            a_ -= 90.0 * u.deg
            a_ *= -1.0
        except Exception:
            note_label('incl-not-modifiable-in-place')
        note_label('returned-incl-modified-by-caller')
    if case.get('setitem') and len(P) >= 2 and not case.get('grid2d') and case.get('rep') != 'cartesian' and not case.get('distance'):
        # a catalogue object that is transformed, corrected in one row (item assignment) and transformed again: the second answer belongs to
        # the corrected positions.  The object is built with the first two rows swapped and put right afterwards.
        Pw = P.copy()
        Pw[[0, 1]] = Pw[[1, 0]]
        icrs = ICRS(ra=Pw[:, 0] * u.deg, dec=Pw[:, 1] * u.deg)
        call(icrs.transform_to, SDSSMuNu(stripe=s_arg), what='ICRS->SDSSMuNu (before the correction)')
        icrs[0] = ICRS(ra=P[0, 0] * u.deg, dec=P[0, 1] * u.deg)
        icrs[1] = ICRS(ra=P[1, 0] * u.deg, dec=P[1, 1] * u.deg)
        note_label('rows-assigned-between-two-transforms')
    mn = call(icrs.transform_to, SDSSMuNu(stripe=s_arg), what='ICRS->SDSSMuNu')
    with judge('forward'):
        check(np.shape(mn.mu) == shp, 'munu:shape-not-kept', lambda: dict(got=np.shape(mn.mu), want=shp))
        mu = np.asarray(mn.mu.to(u.deg).value, dtype='f8').ravel()
        nu = np.asarray(mn.nu.to(u.deg).value, dtype='f8').ravel()
        check(np.all(np.isfinite(mu)) and np.all(np.isfinite(nu)), 'munu:non-finite')
        g = unit_radec(mu - node, nu)
        d = angsep_deg(g, w)
        nu_ref = np.degrees(np.arcsin(np.clip(w[:, 2], -1, 1)))
        check(bool(np.all(d < tol_deg(nu_ref, P[:, 1]))), 'munu:forward-differs-from-rotation', lambda: dict(stripe=s, point=case['points'][int(d.argmax())], off_deg=float(d.max())))
    back = call(mn.transform_to, ICRS(), what='SDSSMuNu->ICRS')
    with judge('roundtrip'):
        b = unit_radec(np.asarray(back.ra.to(u.deg).value).ravel(), np.asarray(back.dec.to(u.deg).value).ravel())
        d = angsep_deg(b, unit_radec(P[:, 0], P[:, 1]))
        check(bool(np.all(d < np.where(tol_deg(nu_ref, P[:, 1]) > 1e-9, 3e-6, 1e-6 / 3600))), 'munu:roundtrip', lambda: dict(stripe=s, point=case['points'][int(d.argmax())], off_arcsec=float(d.max() * 3600)))
        # isometry: pairwise separations preserved
        A = unit_radec(P[:, 0], P[:, 1])
        for i in range(len(P)):
            for j in range(i + 1, len(P)):
                s0 = angsep_deg(A[i], A[j])
                s1 = angsep_deg(g[i], g[j])
                check(abs(s0 - s1) < 2 * max(tol_deg(nu_ref, P[:, 1])[[i, j]]), 'munu:separation-not-preserved', lambda: dict(stripe=s, i=i, j=j, before=float(s0), after=float(s1)))
    # nu = 0 traces the great circle of inclination incl through node RA
    M = np.array(case['mus'], dtype='f8')
    gc = call(SDSSMuNu(mu=M * u.deg, nu=np.zeros(len(M)) * u.deg, stripe=s_arg).transform_to, ICRS(), what='SDSSMuNu->ICRS')
    with judge('great-circle'):
        ra = np.asarray(gc.ra.to(u.deg).value, dtype='f8')
        dec = np.asarray(gc.dec.to(u.deg).value, dtype='f8')
        x = unit_radec(ra - node, dec)
        nrm = np.array([0.0, -si, ci])
        off = np.degrees(np.arcsin(np.clip(x.dot(nrm), -1, 1)))
        check(bool(np.all(np.abs(off) < tol_deg(dec))), 'munu:nu0-off-the-great-circle', lambda: dict(stripe=s, mu=case['mus'], off_deg=off.tolist()))
        # and the inverse direction agrees with the reference rotation (transpose)
        vv = unit_radec(M - node, np.zeros(len(M)))
        ww = np.stack([vv[:, 0], vv[:, 1] * ci - vv[:, 2] * si, vv[:, 1] * si + vv[:, 2] * ci], -1)
        d = angsep_deg(x, ww)
        check(bool(np.all(d < tol_deg(dec))), 'munu:inverse-differs-from-rotation', lambda: dict(stripe=s, off_deg=float(d.max())))


def munu_classify(case):
    s = case['stripe']
    out = ['with-distance' if case.get('distance') else 'direction-only', '2d-array' if case.get('grid2d') else '1d-array', 'incl!=0' if incl_of(s) != 0 else 'incl=0', 'incl<0' if incl_of(s) < 0 else 'incl>=0', 'stripe>46' if s > 46 else 'stripe<=46']
    if any(abs(p[1]) == 90 for p in case['points']):
        out.append('pole-point')
    return out


# ------------------------------------------------------------------ angles <-> vectors
@st.composite
def angle_case(draw):
    n = draw(st.integers(1, 8))
    rows = []
    for _ in range(n):
        phi = draw(st.one_of(st.sampled_from([0.0, 360.0, -180.0, 180.0, 720.5, -1e-9, 359.9999999]), uf.map(lambda v: 400 * v)))
        theta = draw(st.one_of(st.sampled_from([0.0, 180.0, 90.0, 1e-8, 180 - 1e-8, 1e-5, 179.99999, 0.005]), uf.map(lambda v: 90 * (1 + v))))
        rows.append([phi, theta])
    return dict(rows=rows, latitude=draw(st.booleans()), whole=draw(st.sampled_from([False, False, True, 'i4', 'i1'])))


def angle_body(case):
    from pydl.pydlutils.mangle import angles_to_x, x_to_angles
    A = np.array(case['rows'], dtype='f8')
    lat = case['latitude']
    if case.get('whole'):
        A = np.round(A)                  # whole degrees, handed over as an integer array
    arg = A.copy()
    if lat:
        arg[:, 1] = 90.0 - A[:, 1]       # hand over declination instead of polar angle
    if case.get('whole') == 'i1':
        # the narrowest integer type: azimuths below 128 degrees only; NumPy evaluates trigonometric functions of 8-bit integers in
        # half precision, so only a gross error (2e-3) is looked for
        A[:, 0] = np.abs(A[:, 0]) % 120
        arg[:, 0] = A[:, 0]
        arg[:, 1] = 90.0 - A[:, 1]       # declinations (-90 .. 90 fit in 8 bits, polar angles up to 180 do not)
        X8 = call(angles_to_x, arg.astype('i1'), latitude=True)
        with judge('angles_to_x-int8'):
            ph, th = np.radians(A[:, 0]), np.radians(A[:, 1])
            ref = np.stack([np.cos(ph) * np.sin(th), np.sin(ph) * np.sin(th), np.cos(th)], -1)
            check(np.shape(X8) == (len(A), 3) and bool(np.all(np.abs(np.asarray(X8, dtype='f8') - ref) < 2e-3)), 'angles_to_x:wrong-vector-for-8-bit-angles',
                  lambda: dict(angles=arg.tolist(), got=np.asarray(X8, dtype='f8').tolist(), want=ref.tolist()))
        note_label('int8-angles')
        return
    if case.get('whole'):
        arg = arg.astype('i8' if case['whole'] is True else case['whole'])
    X = call(angles_to_x, arg, latitude=lat)
    with judge('angles_to_x'):
        check(X.shape == (len(A), 3), 'angles_to_x:shape')
        ph, th = np.radians(A[:, 0]), np.radians(A[:, 1])
        ref = np.stack([np.cos(ph) * np.sin(th), np.sin(ph) * np.sin(th), np.cos(th)], -1)
        check(bool(np.all(np.abs(X - ref) < 1e-14)), 'angles_to_x:wrong-vector', lambda: dict(rows=case['rows'], got=X.tolist()))
        check(bool(np.all(np.abs(np.linalg.norm(X, axis=1) - 1) < 1e-14)), 'angles_to_x:not-unit')
    if arg.dtype.kind == 'f':
        # a work array that the caller refills: the same array object, new angles (azimuth + 37 deg, polar angle mirrored)
        arg[:, 0] += 37.0
        arg[:, 1] = -arg[:, 1] if lat else 180.0 - arg[:, 1]
        Xn = call(angles_to_x, arg, latitude=lat)
        with judge('angles_to_x-refilled'):
            ph2, th2 = np.radians(A[:, 0] + 37.0), np.radians(180.0 - A[:, 1])
            ref2 = np.stack([np.cos(ph2) * np.sin(th2), np.sin(ph2) * np.sin(th2), np.cos(th2)], -1)
            check(np.shape(Xn) == (len(A), 3) and bool(np.all(np.abs(np.asarray(Xn) - ref2) < 1e-13)), 'angles_to_x:stale-answer-after-the-array-was-refilled',
                  lambda: dict(got=np.asarray(Xn).tolist()[:3], want=ref2.tolist()[:3]))
    B = call(x_to_angles, X, latitude=lat)
    with judge('x_to_angles'):
        check(B.shape == (len(A), 2), 'x_to_angles:shape')
        check(bool(np.all(np.isfinite(B))), 'x_to_angles:nan', lambda: dict(rows=case['rows'], got=B.tolist()))
        th_back = 90.0 - B[:, 1] if lat else B[:, 1]
        for k in range(len(A)):
            polar = min(A[k, 1], 180 - A[k, 1])
            tol = 2e-6 if polar < 0.01 else 1e-9
            check(abs(th_back[k] - A[k, 1]) <= tol, 'x_to_angles:theta', lambda: dict(row=case['rows'][k], got=float(th_back[k])))
            if polar > 1e-6:
                dphi = (B[k, 0] - A[k, 0] + 180.0) % 360.0 - 180.0
                check(abs(dphi) <= 1e-9 / math.sin(math.radians(polar)) + 1e-12, 'x_to_angles:phi', lambda: dict(row=case['rows'][k], got=float(B[k, 0])))
    # and the reverse composition on the unit vectors
    X2 = call(angles_to_x, B, latitude=lat)
    with judge('reverse'):
        d = angsep_deg(X2, X)
        check(bool(np.all(d < 2e-6)), 'vector-roundtrip', lambda: dict(off_deg=float(d.max())))


def angle_classify(case):
    out = ['latitude' if case['latitude'] else 'polar-angle', 'integer-angles' if case.get('whole') else 'float-angles']
    if any(min(r[1], 180 - r[1]) < 0.01 for r in case['rows']):
        out.append('near-pole')
    if any(r[0] < 0 or r[0] >= 360 for r in case['rows']):
        out.append('phi-outside-0-360')
    return out


SUBCHECKS = [
    SubCheck('gcirc', gcirc_body, strategy=gcirc_case, classify=gcirc_classify, nontrivial=gcirc_nontrivial,
             quick=4000, thorough=200000, shards=(4, 16), doc='gcirc vs extended-precision Vincenty; symmetry, zero, range, NaN, 3 unit conventions'),
    SubCheck('munu', munu_body, strategy=munu_case, classify=munu_classify, nontrivial=lambda c, l: 'incl!=0' in l,
             quick=2400, thorough=60000, shards=(8, 16), doc='ICRS<->SDSSMuNu vs explicit rotation, round trip, isometry, nu=0 great circle'),
    SubCheck('angles', angle_body, strategy=angle_case, classify=angle_classify, nontrivial=lambda c, l: 'near-pole' in l or 'phi-outside-0-360' in l,
             quick=3000, thorough=100000, shards=(2, 16), doc='angles_to_x / x_to_angles are mutual inverses, no NaN at the poles'),
]
