"""C11 -- combine1fiber resamples spectra: finite flux, conservative inverse variance."""
import math

import numpy as np
from hypothesis import strategies as st

from vk import SubCheck, Violation, call, judge, check, note_label

PROPERTY = 'C11'
LEVEL = 'exploration'
RULE = ('Hypothesis resampling problems described by parameters (the arrays are rebuilt from them): input grid c0 + c1*i with 120-400 pixels, '
        '1 exposure or 2-3 stacked exposures with sub-pixel offsets, flux families constant / polynomial / sinusoid / sinusoid+noise / '
        'with a cosmic-ray spike, smooth or constant positive ivar with zero patterns none / isolated pixels / runs of 2-30 / leading+trailing '
        'runs / all zero, output grids same / shifted by a pixel fraction / wider / narrower / 2x coarser / disjoint, all five aesthetics '
        'methods, objivar given or omitted; preprocess_spectra with 1-3 objects, shared 1-D or per-object 2-D loglam, z in [0,0.3] and a narrow '
        'emission feature.  Oracles: lengths, finiteness, ivar >= 0; zero rule (non-zero output ivar only between two adjacent good pixels of '
        'some exposure); value rule (single spectrum: non-zero ivar == linear interpolation of the input ivar); metamorphic: same grid '
        'reproduces smooth flux, constants stay constant, (c flux, ivar/c^2) scaling; feature centroid lands at L - log10(1+z).  '
        'Non-trivial = interior zero-run, output grid extending beyond the data, >= 20 output pixels with ivar > 0.')
RULE += '  Also: finer output grids (2-3 output pixels per input pixel), flux scales 1e-17..1e3, negative redshifts.'
RULE += ' Round 5: offset grids (start outside, end inside the data); flux asserted > 12 pixels from every gap / end whatever the output ivar.'
ASSUMPTIONS = ['scale factors c keep ivar/c^2 well above float32 eps (combine1fiber treats |smoothed ivar| < 1.2e-7 as a bad region, an absolute threshold inherited from IDL): c in 1e-17 .. 1e3 for ivar ~ 400',
               'preprocess_spectra derives its own output grid only from a shared 1-D loglam (2-D loglam is always accompanied by newloglam, as in template_input)',
               'the harness installs an SPPIXMASK table in the maskbits cache (the official file cannot be downloaded offline)',
               'an output wavelength within 1e-6 pixel of an input pixel is a hit on that pixel; a hit on a good pixel whose two neighbours are bad may be zero or not',
               'for stacked exposures the zero rule is applied per exposure (an output pixel may be non-zero if some exposure brackets it with two good pixels); the value rule is asserted for single spectra only',
               'flux reproduction tolerance on noise-free smooth families: 2e-3 of the amplitude (B-spline interpolation accuracy), constants 1e-8; scaling 1e-7; under scaling the set of good output pixels must be identical except within 8 input pixels of a zero-weight pixel or a data end (singular fits there are settled by round-off)',
               'stacked exposures keep >= 101 good pixels each (the built-in variance smoothing assumes it)',
               "aesthetics='damp' is exercised for finiteness only when at least one good output pixel lies at index >= 1"]

uf = st.floats(-1.0, 1.0, allow_nan=False)
SPPIXMASK = {'NOPLUG': 0, 'NODATA': 24, 'COMBINEREJ': 25, 'BADSKYCHI': 27, 'REDMONSTER': 28}


def setup():
    import pydl.pydlutils.sdss as S
    S.maskbits = {'SPPIXMASK': dict(SPPIXMASK)}


@st.composite
def case_strategy(draw):
    nexp = draw(st.sampled_from([1, 1, 1, 2, 3]))
    n = draw(st.integers(140 if nexp > 1 else 120, 400))
    c1 = draw(st.sampled_from([1e-4, 1e-4, 2e-4, 0.7e-4]))
    c0 = 3.55 + 0.1 * 0.5 * (1 + draw(uf))
    fam = draw(st.sampled_from(['sinus', 'poly', 'const', 'noisy', 'spike']))
    zp = draw(st.sampled_from(['runs', 'isolated', 'none', 'ends', 'runs', 'all'] if nexp == 1 else ['runs', 'isolated', 'none']))
    zeros = []
    if zp == 'isolated':
        zeros = [[i, 1] for i in draw(st.lists(st.integers(1, n - 2), min_size=1, max_size=6, unique=True))]
    elif zp == 'runs':
        for _ in range(draw(st.integers(1, 3))):
            zeros.append([draw(st.integers(3, n - 35)), draw(st.sampled_from([2, 3, 5, 12, 30] if nexp == 1 else [2, 3, 5]))])
    elif zp == 'ends':
        zeros = [[0, draw(st.integers(1, 20))], [n - draw(st.integers(1, 20)), 20]]
    elif zp == 'all':
        zeros = [[0, n]]
    og = draw(st.sampled_from(['wider', 'shift', 'same', 'narrower', 'coarser', 'wider', 'disjoint', 'finer', 'offset', 'offset']))
    return dict(nexp=nexp, n=n, c0=c0, c1=c1, fam=fam, fp=[draw(uf) for _ in range(4)], zeros=zeros, zpattern=zp,
                offsets=[0.0] + [0.5 * (1 + draw(uf)) * 0.98 + 0.01 for _ in range(nexp - 1)],
                og=og, frac=draw(st.sampled_from([0.5, 0.25, 0.01, 0.99, 0.73, 3e-6, 1 - 4e-6, 6e-6])), left=draw(st.integers(1, 40)), right=draw(st.integers(1, 40)),
                aesthetics=draw(st.sampled_from(['traditional', 'noconst', 'mean', 'nothing', 'damp'])),
                with_ivar=draw(st.sampled_from([True, True, True, False])) if nexp == 1 else True,
                ivar_kind=draw(st.sampled_from(['smooth', 'const'])), scale=draw(st.sampled_from([2.0, 1e-17, 0.5, 1000.0, 1e-3, 1e-9, -2.0])),
                seed=draw(st.integers(0, 10 ** 6)),
                # stacked exposures on one grid sharing a mask that leaves one (or two) good wavelengths between two runs of two bad pixels
                negate=draw(st.sampled_from([False, False, True])),
                layout=draw(st.sampled_from(['C', 'F', 'T'])), arms=draw(st.sampled_from([None, None, None, 5, 20, 60])) if nexp >= 2 else None,
                hole=(draw(st.sampled_from([None, None, None, [draw(st.integers(30, n - 40)), draw(st.sampled_from([12, 5, 30]))]])) if nexp == 1 else None),
                lowrun=None,          # round 12: withdrawn (see DESIGN: raised a false alarm at seed 10 - inside a run of nearly weightless pixels the spline is barely constrained)
                iso=(draw(st.sampled_from([None, None, [draw(st.integers(20, n - 20)), draw(st.sampled_from([1, 2]))]])) if nexp >= 2 else None))


def build(case):
    n, nexp = case['n'], case['nexp']
    with_ivar_ = case.get('with_ivar', True)
    c0, c1 = case['c0'], case['c1']
    k = np.arange(n, dtype='f8')
    lls, fls, ivs = [], [], []
    fp = case['fp']
    rng = np.random.RandomState(case['seed'])          # only shapes noise; part of the case
    for e in range(nexp):
        ll = c0 + c1 * (k + (case['offsets'][e] if not case.get('iso') else 0.0))
        if case.get('arms'):
            # exposures that cover different wavelength ranges (blue and red arm) with a hole of 5 - 60 pixels between them that no input pixel,
            # flagged or not, falls into
            ll = c0 + c1 * (k + e * (n + case['arms']) + case['offsets'][e])
        s = (ll - c0) / (c1 * n)
        if case['fam'] == 'const':
            fl = np.full(n, 5.0 + 3 * fp[0])
        elif case['fam'] == 'poly':
            fl = 5.0 + 2 * fp[0] * s + 1.5 * fp[1] * s ** 2
        else:
            fl = 5.0 + np.sin(s * (2 + 4 * abs(fp[0])) * math.pi + 3 * fp[1]) + 0.5 * fp[2] * s
        sig = 0.05
        iv = np.full(n, 1 / sig ** 2)
        if case['ivar_kind'] == 'smooth':
            iv = iv * (1 + 0.3 * np.sin(k / 17.0 + e))
        if case.get('lowrun') and case['nexp'] == 1 and abs(case['scale']) <= 2.0:
            # round 12: a run of pixels that are good but carry hardly any weight (5e-9 of their neighbours', still well above the absolute
            # floor of the routine): they are data - the spline is fitted there and the output has their weight
            p_, m_ = case['lowrun']
            iv[p_:p_ + m_] = 2e-6
        if case['fam'] in ('noisy', 'spike'):
            fl = fl + rng.normal(0, 1, n) / np.sqrt(iv) * 0.7
        if case['fam'] == 'spike':
            fl[n // 2 + 3 * e] += (60 if with_ivar_ else 400) * sig      # without an inverse variance the weights come from the sample variance: the spike has to stand out of that
        for a, m in case['zeros']:
            a2 = (a + 7 * e) % n if case['zpattern'] != 'all' and case['zpattern'] != 'ends' else a
            iv[a2:a2 + m] = 0.0
        if case.get('iso'):
            p_, w_ = case['iso']
            iv[p_ - 2:p_] = 0.0
            iv[p_ + w_:p_ + w_ + 2] = 0.0
        if case.get('negate'):
            fl = -fl          # a spectrum that is negative throughout (e.g. after an over-subtraction): still data to be resampled
        lls.append(ll)
        fls.append(fl)
        ivs.append(iv)
    ll0 = lls[0]
    og = case['og']
    f = case['frac']
    if og == 'same':
        nl = ll0.copy()
    elif og == 'shift':
        nl = c0 + c1 * (k + f)
    elif og == 'wider':
        nl = c0 + c1 * (np.arange(-case['left'], n + case['right'], dtype='f8') + (f if case['left'] % 2 else 0.0))
    elif og == 'narrower':
        nl = c0 + c1 * (np.arange(case['left'], n - case['right'], dtype='f8') + f)
    elif og == 'coarser':
        nl = c0 + 2 * c1 * np.arange(n // 2, dtype='f8') + c1 * f
    elif og == 'offset':
        # the same pixel scale moved bodily by 15-60 pixels: the grid starts outside the data and ends well inside it (or the reverse)
        sh = 15 + case['left'] + case['right']
        nl = c0 + c1 * (np.arange(n, dtype='f8') + (-sh if case['left'] % 2 else sh) + (f if case['right'] % 2 else 0.0))
    elif og == 'finer':
        # two to three output pixels per input pixel over the middle of the data and a little beyond one end
        m = 2 + (case['left'] % 2)
        nl = c0 + (c1 / m) * (np.arange(m * (n // 3), m * n + 12, dtype='f8') + f)
    else:
        nl = c0 + c1 * (n + 50 + np.arange(60, dtype='f8'))
    if case.get('arms'):
        # the output grid runs over all arms and the holes between them
        nl = c0 + c1 * (np.arange(-case['left'], nexp * (n + case['arms']) + case['right'], dtype='f8') + f)
    if nexp == 1 and case.get('hole'):
        # a single vector whose sampling has a hole (blue and red arm stored one after the other, detector-gap pixels removed rather than flagged)
        a_, w_ = case['hole']
        keep_ = np.ones(n, dtype=bool)
        keep_[a_:a_ + w_] = False
        return lls[0][keep_], fls[0][keep_], ivs[0][keep_], nl
    if nexp == 1:
        return lls[0], fls[0], ivs[0], nl
    return np.array(lls), np.array(fls), np.array(ivs), nl


def allowed_nonzero(ll, good, nl):
    """+1 may be non-zero, 0 either (hit on an isolated good pixel), -1 must be zero.
    An output wavelength within 1e-6 pixel of an input pixel counts as a hit on that pixel (combine1fiber itself treats
    anything closer than float32 eps of a pixel as on it)."""
    n = len(ll)
    out = np.full(len(nl), -1)
    step = abs(ll[1] - ll[0])
    idx = np.searchsorted(ll, nl, side='right') - 1
    for j, (i, lam) in enumerate(zip(idx, nl)):
        near = None
        for k in (i, i + 1):
            if 0 <= k < n and abs(lam - ll[k]) <= 1e-6 * step:
                near = k
        if near is not None:
            if good[near]:
                nb = (near > 0 and good[near - 1]) or (near < n - 1 and good[near + 1])
                out[j] = 1 if nb else 0
            continue
        if i < 0 or i >= n - 1:
            continue
        if good[i] and good[i + 1]:
            # (inside a hole of the input sampling no spline need be fitted: weight or none, but if weight then the right flux)
            out[j] = 1 if ll[i + 1] - ll[i] < 1.5 * step else 0
    return out


def body(case):
    from pydl.pydlspec2d.spec2d import combine1fiber
    ll, fl, iv, nl = build(case)
    if case.get('arms'):
        case = dict(case, og='arms')           # the output grid is the one that runs over all arms, whatever `og` says
    kwargs = dict(aesthetics=case['aesthetics'])
    with_ivar = case['with_ivar']

    def run(flux, ivar):
        if with_ivar:
            return call(combine1fiber, ll.copy(), flux.copy(), nl.copy(), objivar=ivar.copy(), **kwargs)
        return call(combine1fiber, ll.copy(), flux.copy(), nl.copy(), **kwargs)

    damp = case['aesthetics'] == 'damp'
    nf, ni = run(fl, iv)
    if case['aesthetics'] == 'nothing' and len(nl) >= 2:
        # "any new grid": every output pixel is a function of its own wavelength, so the same wavelengths listed from red to blue give
        # the same pixels in reverse (no aesthetics, which works along the pixel order)
        if with_ivar:
            rf, ri = call(combine1fiber, ll.copy(), fl.copy(), nl[::-1].copy(), objivar=iv.copy(), **kwargs)
        else:
            rf, ri = call(combine1fiber, ll.copy(), fl.copy(), nl[::-1].copy(), **kwargs)
        with judge('reversed-grid'):
            a_, b_ = np.asarray(ni, dtype='f8'), np.asarray(ri, dtype='f8')[::-1]
            check(a_.shape == b_.shape and bool(np.array_equal(a_ > 0, b_ > 0)) and bool(np.allclose(a_, b_, rtol=1e-7, atol=0)), 'output-grid-listed-in-reverse-gives-other-weights',
                  lambda: dict(weighted_forward=int((a_ > 0).sum()), weighted_reversed=int((b_ > 0).sum())))
            fa, fb = np.asarray(nf, dtype='f8'), np.asarray(rf, dtype='f8')[::-1]
            sel = a_ > 0
            check(bool(np.allclose(fa[sel], fb[sel], rtol=1e-7, atol=1e-9 * max(1e-300, float(np.abs(fa[sel]).max()) if sel.any() else 1.0))), 'output-grid-listed-in-reverse-gives-other-flux')
        note_label('reversed-grid')
    if case['nexp'] > 1 and case.get('layout', 'C') != 'C':
        # the same stack held in another memory layout (Fortran order; the transposed view of an (npix, nexp) array as FITS / IDL
        # tables deliver it) is the same stack
        mk = np.asfortranarray if case['layout'] == 'F' else (lambda a: np.ascontiguousarray(a.T).T)
        lf, li = call(combine1fiber, mk(ll), mk(fl), nl.copy(), objivar=mk(iv), **kwargs)
        with judge('layout'):
            a_, b_ = np.asarray(ni, dtype='f8'), np.asarray(li, dtype='f8')
            fa, fb = np.asarray(nf, dtype='f8'), np.asarray(lf, dtype='f8')
            check(a_.shape == b_.shape and bool(np.array_equal(a_, b_, equal_nan=True)) and bool(np.array_equal(fa, fb, equal_nan=True)), 'memory-layout-of-the-stack-changes-the-result',
                  lambda: dict(layout=case['layout'], max_flux_diff=float(np.nanmax(np.abs(fa - fb))) if fa.shape == fb.shape else None))
        note_label('layout:' + case['layout'])
    with judge('basic'):
        nf = np.asarray(nf, dtype='f8')
        ni = np.asarray(ni, dtype='f8')
        check(nf.shape == nl.shape and ni.shape == nl.shape, 'wrong-output-length', lambda: dict(flux=nf.shape, ivar=ni.shape, grid=nl.shape))
        if not (damp and not (ni[1:] > 0).any()):
            check(bool(np.all(np.isfinite(nf))), 'non-finite-flux', lambda: dict(n_bad=int((~np.isfinite(nf)).sum()), aesthetics=case['aesthetics']))
        check(bool(np.all(np.isfinite(ni))), 'non-finite-ivar')
        check(bool(np.all(ni >= 0)), 'negative-ivar', lambda: dict(min=float(ni.min())))
    # zero rule
    if case['nexp'] == 1:
        good = (iv > 0) if with_ivar else np.ones(len(ll), dtype=bool)
        allow = allowed_nonzero(ll, good, nl)
    else:
        allow = np.full(len(nl), -1)
        for e in range(case['nexp']):
            allow = np.maximum(allow, allowed_nonzero(ll[e], iv[e] > 0, nl))
    with judge('zero-rule'):
        bad = np.nonzero((allow == -1) & (ni != 0))[0]
        check(len(bad) == 0, 'ivar-nonzero-outside-good-interval',
              lambda: dict(pixels=bad[:8].tolist(), ivar=ni[bad[:8]].tolist(), og=case['og'], zeros=case['zeros'], frac=case['frac']))
    nz = ni > 0
    if case['nexp'] == 1:
        with judge('value-rule'):
            src = iv if with_ivar else np.ones(len(ll))
            interp = np.interp(nl, ll, src)
            if nz.any():
                err = np.abs(ni[nz] - interp[nz]) / interp[nz]
                check(bool(err.max() <= 1e-9), 'ivar-not-linear-interpolation-of-input',
                      lambda: dict(pixel=int(np.nonzero(nz)[0][err.argmax()]), got=float(ni[nz][err.argmax()]), want=float(interp[nz][err.argmax()])))
                idx = np.clip(np.searchsorted(ll, nl[nz], side='right') - 1, 0, len(ll) - 1)
                hi = np.maximum(src[idx], src[np.minimum(idx + 1, len(ll) - 1)])
                check(bool(np.all(ni[nz] <= hi * (1 + 1e-12))), 'ivar-above-local-maximum')
    # metamorphic relations on good output pixels
    amp = 1.0
    if nz.sum() >= 3 and case['fam'] in ('const', 'poly', 'sinus') and not damp:
        with judge('flux'):
            if case['nexp'] == 1:
                ref = np.interp(nl, ll, fl)
            else:
                order = np.argsort(ll.ravel())
                ref = np.interp(nl, ll.ravel()[order], fl.ravel()[order])
            tol = 1e-8 * 8 if case['fam'] == 'const' else (2e-3 if case['fam'] == 'sinus' else 1e-4)
            if case['fam'] != 'const' and case['og'] != 'same':
                tol = max(tol, 5e-3)       # reference itself is a linear interpolation between samples
            tolv = np.full(len(nl), tol)
            if case['fam'] == 'const':
                # within 12 input pixels of a zero-weight pixel / data end the spline system is nearly singular (masked breakpoints):
                # the spline has a nearly free oscillating component there (observed: coefficients 4.98, 5.02, 4.998, ... for constant 5, flux off by 1e-4 between
                # pixels); that is interpolation accuracy, the same 2e-3 allowed for smooth spectra; far from gaps constants must be exact
                l2, i2 = np.atleast_2d(ll), np.atleast_2d(iv)
                bad_l = np.concatenate([l2[e][i2[e] <= 0] for e in range(l2.shape[0])] + [l2[:, 0], l2[:, -1]])
                d2 = np.min(np.abs(nl[:, None] - bad_l[None, :]), axis=1)
                tolv = np.where(d2 > 25 * abs(l2[0, 1] - l2[0, 0]), tolv, 2e-3)
            dev = np.abs(nf - ref)
            kind = 'constant-spectrum-not-constant' if case['fam'] == 'const' else ('same-grid-not-identity' if case['og'] == 'same' else 'flux-not-reproduced')
            nzf = nz.copy()
            if case.get('iso'):
                # an island of one or two good wavelengths between two gaps is not "good and smooth" input: the spline through it is
                # barely constrained (observed 15 % off with a non-zero inverse variance); only the inverse-variance rules apply there
                l0_ = np.atleast_2d(ll)[0]
                p_, w_ = case['iso']
                nzf &= ~((nl >= l0_[p_ - 3]) & (nl <= l0_[min(p_ + w_ + 2, len(l0_) - 1)]))
            if nzf.any():
                worst = int(np.nonzero(nzf)[0][(dev[nzf] / tolv[nzf]).argmax()])
                check(bool(np.all(dev[nzf] <= tolv[nzf] * amp)), kind, lambda: dict(maxdev=float(dev[worst]), tol=float(tolv[worst]), og=case['og'], pixel=worst))
            if case['nexp'] == 1 and case['fam'] != 'const':
                # "where the input is good and smooth the output reproduces it": far (> 12 input pixels) from every zero-weight pixel and
                # from both ends of the data the flux is the input's, whatever inverse variance the pixel was given
                l1 = np.asarray(ll, dtype='f8')
                badl = np.concatenate([l1[np.asarray(iv) <= 0] if with_ivar else l1[:0], l1[[0, -1]]])
                deep = np.min(np.abs(nl[:, None] - badl[None, :]), axis=1) > 12 * abs(l1[1] - l1[0])
                deep &= (nl > l1.min()) & (nl < l1.max())
                for g_ in np.nonzero(np.diff(l1) > 1.5 * abs(l1[1] - l1[0]))[0]:
                    # a hole in the sampling is an end of the data on either side
                    deep &= (nl < l1[g_] - 12 * abs(l1[1] - l1[0])) | (nl > l1[g_ + 1] + 12 * abs(l1[1] - l1[0]))
                if deep.any():
                    w2 = int(np.nonzero(deep)[0][(dev[deep] / tolv[deep]).argmax()])
                    check(bool(np.all(dev[deep] <= tolv[deep])), 'flux-not-reproduced-deep-inside-good-data',
                          lambda: dict(maxdev=float(dev[w2]), tol=float(tolv[w2]), pixel=w2, ivar_there=float(ni[w2]), og=case['og'], npix=len(nl)))
    c = case['scale']
    if not with_ivar:
        # the scaling relation is about (c flux, ivar / c^2); without an inverse variance iterfit derives its weights from the
        # sample variance of the data (degenerate for exactly constant data), so nothing is asserted
        note_label('scaling-skipped-no-ivar')
        if nz.sum() >= 20:
            note_label('>=20-good-output-pixels')
        return
    nf2, ni2 = run(fl * c, iv / c ** 2)
    with judge('scaling'):
        nf2 = np.asarray(nf2, dtype='f8')
        ni2 = np.asarray(ni2, dtype='f8')
        lls = np.atleast_2d(ll)
        ivs = np.atleast_2d(iv)
        step = abs(lls[0, 1] - lls[0, 0])
        badlam = np.concatenate([lls[e][ivs[e] <= 0] for e in range(lls.shape[0])] + [lls[:, 0], lls[:, -1]])
        dist = np.min(np.abs(nl[:, None] - badlam[None, :]), axis=1)
        if case['fam'] not in ('noisy', 'spike'):
            # next to zero-weight pixels and at the data ends the normal equations are singular and WHICH breakpoints get masked is
            # decided by round-off (observed: 5 vs 1 masked breakpoints for c = 1 vs 1000), so the good-pixel set may differ there;
            # elsewhere it must be identical
            stable = dist > 8 * step
            diff = ((ni2 > 0) != nz) & stable
            check(not diff.any(), 'scaling-changes-good-pixels', lambda: dict(pixels=np.nonzero(diff)[0].tolist()[:8]))
        both = nz & (ni2 > 0)
        smooth_input = case['fam'] in ('const', 'poly', 'sinus')
        if both.any() and not damp and not smooth_input:
            note_label('flux-scaling-skipped-noisy-input')
        if case.get('iso'):
            l0_ = np.atleast_2d(ll)[0]
            p_, w_ = case['iso']
            both = both & ~((nl >= l0_[p_ - 3]) & (nl <= l0_[min(p_ + w_ + 2, len(l0_) - 1)]))       # the island is not "good and smooth" input (see above)
        if both.any() and not damp and smooth_input:
            # the statement promises flux relations "where the input is good and smooth"; with noise, a gap next to the data end makes the
            # spline system nearly singular and the noise is amplified (observed: flux 535 instead of 5 at pixels with ivar > 0, and a
            # 5e-3 scale dependence) - recorded as observation O10 in DESIGN.md
            # the fit is linear in the flux when the same breakpoints are used; next to gaps / data ends a different set of breakpoints may be
            # masked (round-off, see above) and the two splines then agree only to interpolation accuracy.  B-splines are local, so far
            # from such places (> 12 input pixels) exact scaling is asserted.
            ref_amp = abs(c) * np.abs(nf[both]).max()
            stol = np.where(dist > 25 * step, 1e-6, 2e-3)        # the free oscillating component decays away from a gap
            dv = np.abs(nf2 - c * nf)
            worst = int(np.nonzero(both)[0][(dv[both] / stol[both]).argmax()])
            check(bool(np.all(dv[both] <= stol[both] * ref_amp)), 'flux-does-not-scale',
                  lambda: dict(maxdev=float(dv[worst]), allowed=float(stol[worst] * ref_amp), c=c, pixels_from_gap=float(dist[worst] / step)))
        if both.any() and with_ivar:
            check(bool(np.all(np.abs(ni2[both] * c ** 2 - ni[both]) <= 1e-7 * ni[both])), 'ivar-does-not-scale',
                  lambda: dict(maxdev=float(np.abs(ni2[both] * c ** 2 - ni[both]).max()), c=c))
    if nz.sum() >= 20:
        note_label('>=20-good-output-pixels')
    if (allow == -1).any() and nz.any():
        note_label('has-must-be-zero-pixels')
    if not nz.any():
        note_label('no-good-output-pixel')


def classify(case):
    out = ['og:' + case['og'], 'zeros:' + case['zpattern'], 'fam:' + case['fam'], 'aes:' + case['aesthetics'], 'nexp:%d' % case['nexp'],
           'ivar' if case['with_ivar'] else 'no-ivar']
    if case['zpattern'] in ('runs', 'isolated'):
        out.append('interior-zero-run')
    if case['og'] in ('wider', 'coarser', 'shift', 'offset'):
        out.append('grid-beyond-data')
    return out


def nontrivial(case, labels):
    return 'interior-zero-run' in labels and case['og'] == 'wider' and '>=20-good-output-pixels' in labels


# ------------------------------------------------------------------ preprocess_spectra
@st.composite
def prep_case(draw):
    nobj = draw(st.sampled_from([2, 1, 3]))
    n = draw(st.integers(200, 400))
    c1 = 1e-4
    c0 = 3.58
    loglam2d = draw(st.booleans())
    # the grid can only be derived from a shared 1-D loglam (dloglam = loglam[1] - loglam[0]); in-repo callers always pass newloglam with 2-D loglam
    given = True if loglam2d else draw(st.booleans())
    z = [draw(st.sampled_from([0.1, 0.05, 0.0, 0.3, 0.17, 0.01, -0.0012, -0.01])) for _ in range(nobj)]
    zmode = draw(st.sampled_from(['each', 'each', 'equal', 'none']))
    if zmode == 'equal':
        z = [z[0]] * nobj          # repeated spectra of one object / objects at one redshift
    elif zmode == 'none':
        z = [0.0] * nobj           # zfit left out: no shift
    return dict(nobj=nobj, n=n, c0=c0, c1=c1, z=z, zmode=zmode,
                rowshift=[0] + [draw(st.sampled_from([0, 7, 25, 40, 13])) for _ in range(nobj - 1)] if loglam2d else [0] * nobj,
                feature=[draw(st.integers(60, n - 60)) + 0.5 * draw(uf) for _ in range(nobj)], width=draw(st.sampled_from([2.0, 3.0])),
                loglam2d=loglam2d, given_grid=given, aesthetics=draw(st.sampled_from(['mean', 'traditional'])))


def prep_body(case):
    from pydl.pydlspec2d.spec1d import preprocess_spectra
    nobj, n, c0, c1 = case['nobj'], case['n'], case['c0'], case['c1']
    k = np.arange(n, dtype='f8')
    ll = c0 + c1 * k
    flux = np.zeros((nobj, n))
    for j in range(nobj):
        flux[j] = 1.0 + 10.0 * np.exp(-0.5 * ((k - case['feature'][j]) / case['width']) ** 2)
    ivar = np.full((nobj, n), 100.0)
    rs = case.get('rowshift', [0] * nobj)
    loglam = np.array([c0 + c1 * (k + rs[j]) for j in range(nobj)]) if case['loglam2d'] else ll      # one wavelength solution per object, starting elsewhere
    z = np.array(case['z'], dtype='f8')
    zkw = {} if case.get('zmode') == 'none' else dict(zfit=z.copy())
    if case['given_grid']:
        lo = c0 - math.log10(1.3) - 5 * c1
        newll = lo + c1 * np.arange(int((c0 + c1 * n - lo) / c1) + 90, dtype="f8")
        out = call(preprocess_spectra, flux.copy(), ivar.copy(), loglam=loglam.copy(), newloglam=newll, aesthetics=case['aesthetics'], **zkw)
    else:
        out = call(preprocess_spectra, flux.copy(), ivar.copy(), loglam=loglam.copy(), aesthetics=case['aesthetics'], **zkw)
    with judge('preprocess'):
        nf, ni, nll = [np.asarray(a, dtype='f8') for a in out]
        check(nf.shape == (nobj, len(nll)) and ni.shape == nf.shape, 'preprocess:shapes', lambda: dict(flux=nf.shape, ivar=ni.shape, grid=nll.shape))
        check(bool(np.all(np.isfinite(nf)) and np.all(np.isfinite(ni)) and np.all(ni >= 0)), 'preprocess:non-finite-or-negative')
        d = nll[1] - nll[0]
        for j in range(nobj):
            L = c0 + c1 * (case['feature'][j] + rs[j])
            want = L - math.log10(1 + z[j])
            good = ni[j] > 0
            w = np.where(good, np.clip(nf[j] - 1.0, 0, None), 0.0)
            check(w.sum() > 1.0, 'preprocess:feature-lost', lambda: dict(obj=j, z=float(z[j])))
            cen = (w * nll).sum() / w.sum()
            check(abs(cen - want) <= d, 'preprocess:feature-not-at-L-minus-log10(1+z)',
                  lambda: dict(obj=j, z=float(z[j]), got=float(cen), want=float(want), off_pixels=float((cen - want) / d)))
            # inverse variance is zero outside the de-redshifted range of the data
            lo_, hi_ = ll[0] + c1 * rs[j] - math.log10(1 + z[j]), ll[-1] + c1 * rs[j] - math.log10(1 + z[j])
            outside = (nll < lo_ - 1e-12) | (nll > hi_ + 1e-12)
            check(not (ni[j][outside] != 0).any(), 'preprocess:ivar-nonzero-outside-shifted-range', lambda: dict(obj=j))


def prep_classify(case):
    out = ['nobj:%d' % case['nobj'], '2d-loglam' if case['loglam2d'] else 'shared-1d-loglam', 'grid-given' if case['given_grid'] else 'grid-derived']
    out.append('z:' + case.get('zmode', 'each'))
    if len(set(case.get('rowshift', [0]))) > 1:
        out.append('rows-start-at-different-wavelengths')
    if any(zz > 0 for zz in case['z'][:-1]):
        out.append('earlier-object-redshifted')
    return out


SUBCHECKS = [
    SubCheck('resample', body, strategy=case_strategy, classify=classify, nontrivial=nontrivial,
             quick=2000, thorough=40000, shards=(16, 16), floor=0.01,
             doc='finiteness, zero rule, value rule, identity / constant / scaling relations for combine1fiber'),
    SubCheck('deredshift', prep_body, strategy=prep_case, classify=prep_classify,
             nontrivial=lambda c, l: c['nobj'] >= 2 and 'earlier-object-redshifted' in l, quick=400, thorough=6000, shards=(8, 16),
             doc='preprocess_spectra moves a feature at L to L - log10(1+z) for every object'),
]
