"""C16 -- readspec returns each requested spectrum in request order, unshifted."""
import os

import numpy as np
from hypothesis import strategies as st

from vk import SubCheck, Violation, call, judge, check, note_label
from vk.runner import tmpdir

PROPERTY = 'C16'
LEVEL = 'exploration'
RULE = ('Hypothesis synthetic survey trees written per case with astropy: 1-4 plates, some observed on 2 MJDs, 3-12 fibres, pixel counts differing between '
        'plate-MJDs (10-40), per-plate COEFF0/COEFF1; every HDU value encodes (plate, MJD, HDU, fibre, pixel) so a misplaced element is identifiable; '
        'spZbest under RUN1D, optional photoPlate; configuration through the environment or path=.  Request vectors: 1-15 (plate, MJD, fibre) triples '
        'in scrambled order with repeats (vector convention), scalar plate + vector fibres, scalar everything, MJD omitted (latest-MJD lookup).  '
        'Oracle: decode the expected value of every returned element from the request.  spec_append: blocks (1-4)x(1-12), pixshift -5..5, int and '
        'float dtypes: both blocks present at the documented offsets, zeros elsewhere.  Non-trivial = >= 2 plate-MJD groups with different '
        'pixel counts, requests not sorted by group, >= 1 repeated plate.')
RULE += '  Also: run2d=/run1d= keywords with an environment lacking RUN2D/RUN1D, vector-valued table columns, empty blocks (0, n) / (m, 0) for spec_append.'
RULE += ' Round 5: reduction tags v5_7_0 / trunk / master / DR12x / 26 in two survey trees; run2d= keyword against a decoy $RUN2D; plates up to 15999.'
ASSUMPTIONS = ['explicit-request calling conventions only: vectors, scalar plate + fibres, scalars, MJD omitted (the all-fibres mode is not a request vector and currently cannot run, see DESIGN.md O9); the topdir= keyword is not used; run2d=/run1d= keywords are used together with path= and an environment without RUN2D/RUN1D',
               'spZbest (and photoPlate when written) exists for every plate-MJD of a tree',
               'files are written by the harness with astropy.io.fits in the spPlate HDU layout (0 flux, 1 invvar, 2 andmask, 3 ormask, 4 disp, 5 plugmap, 6 sky)']

RUN2D, RUN1D = 'v5_7_0', 'v5_7_2'


def val(plate, mjd, hdu, fib, pix):
    return plate * 1000.0 + (mjd % 1000) * 1.0 + hdu * 0.1 + fib * 0.001 + pix * 1e-6


@st.composite
def tree_case(draw):
    nplates = draw(st.sampled_from([2, 3, 1, 4]))
    plates = draw(st.lists(st.one_of(st.integers(266, 9999), st.integers(266, 9999), st.integers(10000, 15999), st.integers(65536, 70000)), min_size=nplates, max_size=nplates, unique=True))
    if nplates >= 2 and draw(st.integers(0, 3)) == 0:
        # two plates of which one number ends in the digits of the other (266 and 1266, 10266): separate plates
        base_p = draw(st.integers(266, 999))
        plates[0], plates[1] = base_p, base_p + draw(st.sampled_from([1000, 10000, 2000]))
        plates = list(dict.fromkeys(plates))
        nplates = len(plates)
    # 'all-fibres' (fiber=None) is implemented below but not sampled: number_of_fibers() cannot work for BOSS-era plates on NumPy 2
    # (assigns a 1-element array to a scalar slot); the mode is not a (plate, MJD, fibre) request vector -> observation O9 in DESIGN.md
    conv = draw(st.sampled_from(['vectors', 'vectors', 'vectors', 'scalar-plate', 'scalar-all', 'mjd-omitted']))
    obs = []
    for p in plates:
        nm = draw(st.sampled_from([1, 1, 2]))
        # the all-fibres mode looks the fibre count up in platelist.fits for BOSS-era plates (MJD >= 55025) and assumes 640 before
        for m in draw(st.lists(st.integers(55100 if conv == 'all-fibres' else 51600, 58000), min_size=nm, max_size=nm, unique=True)):
            obs.append(dict(plate=p, mjd=m, nf=draw(st.integers(3, 12)), npix=draw(st.integers(10, 40)),
                            c0=3.5 + 0.1 * draw(st.floats(0, 1)), c1=draw(st.sampled_from([1e-4, 1.0001e-4, 2e-4]))))
    nreq = draw(st.sampled_from([6, 10, 3, 15, 8, 12, 4, 2, 1]))
    if conv in ('scalar-plate', 'scalar-all'):
        g = draw(st.integers(0, len(obs) - 1))
        nreq = 1 if conv == 'scalar-all' else nreq
        req = [[g, draw(st.integers(1, obs[g]['nf']))] for _ in range(nreq)]
    elif conv == 'all-fibres':
        # a set of distinct plates (scalar when one); every fibre of the latest MJD of each, plates in ascending order
        chosen = sorted(draw(st.lists(st.sampled_from(plates), min_size=1, max_size=len(plates), unique=True)))
        req = []
        for p in chosen:
            g = max((i for i, o in enumerate(obs) if o['plate'] == p), key=lambda i: obs[i]['mjd'])
            req += [[g, f] for f in range(1, obs[g]['nf'] + 1)]
    else:
        req = []
        for _ in range(nreq):
            g = draw(st.integers(0, len(obs) - 1))
            req.append([g, draw(st.integers(1, obs[g]['nf']))])
    return dict(obs=obs, conv=conv, req=req, staged=draw(st.booleans()), run1d_empty=draw(st.sampled_from([False, False, True])), config=draw(st.sampled_from(['env', 'env', 'path', 'path-keywords', 'env-run2d-keyword'])), photo=draw(st.booleans()), photo_layout=draw(st.sampled_from(['beside', 'match', 'beside'])),
                run2d=draw(st.sampled_from([RUN2D, RUN2D, 'trunk', '26', 'DR12x', 'master'])), plug_fiberid=draw(st.sampled_from(['rows', 'rows', 'unplugged', 'reversed'])))


def write_tree(top, case):
    from astropy.io import fits
    if case['conv'] == 'all-fibres':
        n = len(case['obs'])
        pl = np.zeros(n, dtype=[('PLATE', 'i4'), ('MJD', 'i4'), ('RUN2D', 'S10'), ('RUN1D', 'S10'), ('N_TOTAL', 'i4')])
        for i, o in enumerate(case['obs']):
            pl[i] = (o['plate'], o['mjd'], RUN2D, RUN1D, o['nf'])
        fits.HDUList([fits.PrimaryHDU(), fits.BinTableHDU(pl)]).writeto(os.path.join(top, 'platelist.fits'))
    for o in case['obs']:
        plate, mjd, nf, npix = o['plate'], o['mjd'], o['nf'], o['npix']
        r2 = case.get('run2d', RUN2D)
        d = top if case['config'].startswith('path') else os.path.join(top, 'sdss' if r2.isdigit() else 'boss', r2, '%04d' % plate)
        os.makedirs(os.path.join(d, RUN1D), exist_ok=True)
        F = np.arange(1, nf + 1)[:, None]
        P = np.arange(npix)[None, :]

        def img(h):
            return val(plate, mjd, h, F, P).astype('f8')
        h = fits.Header()
        h['COEFF0'] = o['c0']
        h['COEFF1'] = o['c1']
        pm = np.zeros(nf, dtype=[('FIBERID', 'i4'), ('PLATE', 'i4'), ('MJD', 'i4'), ('RA', 'f8'), ('MAG', 'f4', (5,))])
        pm['MAG'] = (val(plate, mjd, 5, np.arange(nf) + 1, 0)[:, None] % 100) + np.arange(5)[None, :]
        pm['FIBERID'] = np.arange(nf) + 1
        if case.get('plug_fiberid') == 'unplugged':
            pm['FIBERID'][::3] = -1          # fibres that were not plugged; rows are still addressed by position
        elif case.get('plug_fiberid') == 'reversed':
            pm['FIBERID'] = pm['FIBERID'][::-1].copy()
        pm['PLATE'] = plate
        pm['MJD'] = mjd
        pm['RA'] = val(plate, mjd, 5, np.arange(nf) + 1, 0)
        hd = [fits.PrimaryHDU(img(0), header=h), fits.ImageHDU(img(1)), fits.ImageHDU((F * 100 + P + plate).astype('i4')),
              fits.ImageHDU((F * 100 + P + mjd).astype('i4')), fits.ImageHDU(img(4)), fits.BinTableHDU(pm), fits.ImageHDU(img(6))]
        fits.HDUList(hd).writeto(os.path.join(d, 'spPlate-%04d-%05d.fits' % (plate, mjd)))
        z = np.zeros(nf, dtype=[('FIBERID', 'i4'), ('Z', 'f8'), ('PLATE', 'i4'), ('MJD', 'i4'), ('THETA', 'f8', (4,))])
        z['THETA'] = val(plate, mjd, 7, np.arange(nf) + 1, 0)[:, None] + 0.25 * np.arange(4)[None, :]
        z['FIBERID'] = np.arange(nf) + 1
        z['Z'] = val(plate, mjd, 7, np.arange(nf) + 1, 0)
        z['PLATE'] = plate
        z['MJD'] = mjd
        # SDSS-I/II layout (run1d=''): the redshift file sits next to the spPlate file
        fits.HDUList([fits.PrimaryHDU(), fits.BinTableHDU(z)]).writeto(os.path.join(d, '' if case.get('run1d_empty') else RUN1D, 'spZbest-%04d-%05d.fits' % (plate, mjd)))
        if case['photo']:
            t = np.zeros(nf, dtype=[('FIBERID', 'i4'), ('OBJC', 'f8')])
            t['FIBERID'] = np.arange(nf) + 1
            t['OBJC'] = val(plate, mjd, 8, np.arange(nf) + 1, 0)
            pd_ = d
            if case.get('photo_layout') == 'match':
                # round 11: the SDSS-I/II place of the photoPlate files, $SPECTRO_MATCH/<run2d>/<basename of $PHOTO_RESOLVE>/<PPPP>/
                pd_ = os.path.join(top, 'match', r2, 'resolve', '%04d' % plate)
                os.makedirs(pd_, exist_ok=True)
            fits.HDUList([fits.PrimaryHDU(), fits.BinTableHDU(t)]).writeto(os.path.join(pd_, 'photoPlate-%04d-%05d.fits' % (plate, mjd)))


def tree_body(case):
    from pydl.pydlspec2d.spec1d import readspec
    obs = case['obs']
    conv = case['conv']
    req = [list(r) for r in case['req']]
    if conv == 'mjd-omitted':
        # the latest MJD of each requested plate is what must be returned
        latest = {}
        for i, o in enumerate(obs):
            if o['plate'] not in latest or o['mjd'] > obs[latest[o['plate']]]['mjd']:
                latest[o['plate']] = i
        req = [[latest[obs[g]['plate']], min(f, obs[latest[obs[g]['plate']]]['nf'])] for g, f in req]
    # a tree that grows between two calls (a plate is observed again): the request with the MJD omitted is first made while the
    # latest observation of every plate that has several is still missing, then again after it has arrived
    staged = bool(case.get('staged')) and conv == 'mjd-omitted'
    early = list(range(len(obs)))
    if staged:
        early = [i for i, o in enumerate(obs) if i not in set(latest.values()) or sum(1 for q in obs if q['plate'] == o['plate']) == 1]
        staged = len(early) < len(obs)
    r_first = None
    with tmpdir() as top:
        write_tree(top, dict(case, obs=[obs[i] for i in early]))
        r2 = case.get('run2d', RUN2D)
        # two survey trees side by side: reductions with a numeric tag (SDSS-I/II reruns) under $SPECTRO_REDUX, all others under $BOSS_SPECTRO_REDUX
        os.makedirs(os.path.join(top, 'boss'), exist_ok=True)
        os.makedirs(os.path.join(top, 'sdss'), exist_ok=True)
        os.environ.update({'BOSS_SPECTRO_REDUX': os.path.join(top, 'boss'), 'SPECTRO_REDUX': os.path.join(top, 'sdss'), 'RUN2D': r2, 'RUN1D': RUN1D, 'SPECTRO_MATCH': os.path.join(top, 'match'),
                           'PHOTO_RESOLVE': '/nonexistent/resolve'})
        kw = {}
        if case['config'].startswith('path'):
            kw['path'] = top
        if case['config'] == 'env-run2d-keyword':
            # the reduction is named by the run2d= keyword while $RUN2D points at another one, in which every plate has a later
            # (never to be opened) spPlate file: the keyword decides where the latest MJD is looked up and where the files are read
            kw['run2d'] = r2
            os.environ['RUN2D'] = 'decoy9'
            for o in obs:
                dd = os.path.join(top, 'boss', 'decoy9', '%04d' % o['plate'])
                os.makedirs(dd, exist_ok=True)
                open(os.path.join(dd, 'spPlate-%04d-%05d.fits' % (o['plate'], 58100 + o['plate'] % 50)), 'w').close()
        if case['config'] == 'path-keywords':
            # everything handed over explicitly: no reduction version in the environment at all
            kw.update(run2d=r2, run1d=RUN1D)
            for k in ('RUN2D', 'RUN1D', 'BOSS_SPECTRO_REDUX', 'SPECTRO_REDUX'):
                os.environ.pop(k, None)
        if case.get('run1d_empty'):
            # an explicit empty run1d (what findspec(sdss=True) passes) while $RUN1D names a 1-D reduction that does not exist here
            kw['run1d'] = ''
            os.environ['RUN1D'] = 'decoy1d'
            note_label('run1d-empty')
        plates = np.array([obs[g]['plate'] for g, f in req], dtype='i4')
        mjds = np.array([obs[g]['mjd'] for g, f in req], dtype='i4')
        fibs = np.array([f for g, f in req], dtype='i4')
        if staged:
            first_latest = {}
            for i in early:
                if obs[i]['plate'] not in first_latest or obs[i]['mjd'] > obs[first_latest[obs[i]['plate']]]['mjd']:
                    first_latest[obs[i]['plate']] = i
            req_first = [[first_latest[obs[g]['plate']], min(f, obs[first_latest[obs[g]['plate']]]['nf'])] for g, f in req]
            r_first = call(readspec, plates, fiber=np.array([f for g, f in req_first], dtype='i4'), **kw)
            write_tree(top, dict(case, obs=[o for i, o in enumerate(obs) if i not in early]))
            note_label('tree-grew-between-two-calls')
        if conv == 'vectors':
            r = call(readspec, plates, mjd=mjds, fiber=fibs, **kw)
        elif conv == 'mjd-omitted':
            r = call(readspec, plates, fiber=fibs, **kw)
        elif conv == 'all-fibres':
            uniq = sorted(set(int(p) for p in plates))
            r = call(readspec, np.array(uniq, dtype='i4') if len(uniq) > 1 else uniq[0], **kw)
        elif conv == 'scalar-plate':
            r = call(readspec, int(plates[0]), mjd=int(mjds[0]), fiber=fibs if len(fibs) > 1 else int(fibs[0]), **kw)
        else:
            r = call(readspec, int(plates[0]), mjd=int(mjds[0]), fiber=int(fibs[0]), **kw)
    def verify(r, req):
        nreq = len(req)
        npmax = max(obs[g]['npix'] for g, f in req)
        with judge('readspec'):
            for name in ('flux', 'invvar', 'andmask', 'ormask', 'disp', 'sky', 'loglam', 'plugmap', 'zans'):
                check(name in r, 'readspec:missing-key:' + name)
            check(np.asarray(r['flux']).shape == (nreq, npmax), 'readspec:flux-shape', lambda: dict(got=np.asarray(r['flux']).shape, want=(nreq, npmax)))
            for i, (g, f) in enumerate(req):
                o = obs[g]
                plate, mjd, npix = o['plate'], o['mjd'], o['npix']
                pix = np.arange(npix)
                for name, h in (('flux', 0), ('invvar', 1), ('disp', 4), ('sky', 6)):
                    exp = np.zeros(npmax)
                    exp[:npix] = val(plate, mjd, h, f, pix)
                    got = np.asarray(r[name][i], dtype='f8')
                    check(np.array_equal(got, exp), 'readspec:%s-row-is-not-request' % name,
                          lambda: dict(row=i, request=[plate, mjd, f], got_head=got[:3].tolist(), want_head=exp[:3].tolist(), got_tail=got[-3:].tolist(), want_tail=exp[-3:].tolist(),
                                       nreq=nreq, groups=len({q[0] for q in req})))
                for name, off in (('andmask', plate), ('ormask', mjd)):
                    exp = np.zeros(npmax, dtype='i8')
                    exp[:npix] = f * 100 + pix + off
                    check(np.array_equal(np.asarray(r[name][i], dtype='i8'), exp), 'readspec:%s-row-is-not-request' % name, lambda: dict(row=i, request=[plate, mjd, f]))
                exp = np.zeros(npmax)
                exp[:npix] = o['c0'] + o['c1'] * pix
                check(bool(np.all(np.abs(np.asarray(r['loglam'][i], dtype='f8') - exp) <= 1e-12)), 'readspec:loglam-not-coeff0+coeff1*pixel',
                      lambda: dict(row=i, request=[plate, mjd, f], got=np.asarray(r['loglam'][i])[:3].tolist(), want=exp[:3].tolist()))
                pmrow = (int(r['plugmap']['FIBERID'][i]), int(r['plugmap']['PLATE'][i]), int(r['plugmap']['MJD'][i]))
                # what the FIBERID column of row fibre-1 holds in this tree (the row is addressed by position, whatever the column says)
                fid = f
                if case.get('plug_fiberid') == 'unplugged' and (f - 1) % 3 == 0:
                    fid = -1
                elif case.get('plug_fiberid') == 'reversed':
                    fid = o['nf'] - f + 1
                check(pmrow == (fid, plate, mjd) and float(r['plugmap']['RA'][i]) == val(plate, mjd, 5, f, 0), 'readspec:plugmap-row-is-not-request', lambda: dict(row=i, got=pmrow, want=(fid, plate, mjd)))
                zrow = (int(r['zans']['FIBERID'][i]), int(r['zans']['PLATE'][i]), int(r['zans']['MJD'][i]))
                check(zrow == (f, plate, mjd) and float(r['zans']['Z'][i]) == val(plate, mjd, 7, f, 0), 'readspec:zans-row-is-not-request', lambda: dict(row=i, got=zrow, want=(f, plate, mjd)))
                th = np.asarray(r['zans']['THETA'])
                check(th.shape == (nreq, 4) and np.array_equal(th[i], val(plate, mjd, 7, f, 0) + 0.25 * np.arange(4)), 'readspec:zans-vector-column-wrong',
                      lambda: dict(row=i, shape=th.shape))
                mg = np.asarray(r['plugmap']['MAG'])
                check(mg.shape == (nreq, 5) and np.array_equal(mg[i], (val(plate, mjd, 5, f, 0) % 100 + np.arange(5)).astype('f4')), 'readspec:plugmap-vector-column-wrong',
                      lambda: dict(row=i, shape=mg.shape))
                if case['photo']:
                    check('tsobj' in r and int(r['tsobj']['FIBERID'][i]) == f and float(r['tsobj']['OBJC'][i]) == val(plate, mjd, 8, f, 0), 'readspec:tsobj-row-is-not-request')
    if r_first is not None:
        verify(r_first, req_first)
    verify(r, req)
    nreq = len(req)
    groups = [g for g, f in req]
    if len({obs[g]['npix'] for g in groups}) >= 2:
        note_label('different-pixel-counts')
    order = sorted(range(nreq), key=lambda i: ((obs[groups[i]]['plate'] << 16) + obs[groups[i]]['mjd'], i))
    if order != list(range(nreq)):
        note_label('requests-not-in-file-order')
    # is the permutation its own inverse?
    inv = np.argsort(order)
    if not np.array_equal(inv, order):
        note_label('permutation-not-involution')
    if len(set(groups)) < len(groups):
        note_label('repeated-plate')


def tree_classify(case):
    return ['run2d:' + case.get('run2d', RUN2D), 'conv:' + case['conv'], 'config:' + case['config'], 'groups:%d' % min(len(case['obs']), 4), ('photo:' + case.get('photo_layout', 'beside')) if case['photo'] else 'nophoto', 'nreq:%d' % min(len(case['req']) // 4 * 4, 12)]


def tree_nontrivial(case, labels):
    return {'different-pixel-counts', 'requests-not-in-file-order', 'repeated-plate'} <= set(labels)


# ------------------------------------------------------------------ spec_append
@st.composite
def append_case(draw):
    s1 = [draw(st.integers(1, 4)), draw(st.integers(1, 12))]
    s2 = [draw(st.integers(1, 4)), draw(st.sampled_from([s1[1], draw(st.integers(1, 12))]))]
    if draw(st.integers(0, 7)) == 0:
        # an empty block: no rows yet (0, n) or no pixels (m, 0); its width and its rows still count
        which = draw(st.sampled_from([s1, s2]))
        which[draw(st.sampled_from([0, 1]))] = 0
    return dict(s1=s1, s2=s2, pixshift=draw(st.sampled_from([0, 1, -1, 2, -3, 5, -5, 4])), dtype=draw(st.sampled_from(['f8', 'i4', 'f4'])))


def append_body(case):
    from pydl.pydlspec2d.spec1d import spec_append
    dt = case['dtype']
    a = (1 + np.arange(np.prod(case['s1']))).reshape(case['s1']).astype(dt)
    b = (1000 + np.arange(np.prod(case['s2']))).reshape(case['s2']).astype(dt)
    ka, kb = a.copy(), b.copy()
    ps = case['pixshift']
    out = call(spec_append, a, b, pixshift=ps) if ps != 0 else call(spec_append, a, b)
    n1, p1 = a.shape
    n2, p2 = b.shape
    o1, o2 = (-ps, 0) if ps < 0 else (0, ps)
    width = max(p1 + o1, p2 + o2)
    exp = np.zeros((n1 + n2, width), dtype=dt)
    exp[:n1, o1:o1 + p1] = a
    exp[n1:, o2:o2 + p2] = b
    with judge('spec_append'):
        out = np.asarray(out)
        check(out.shape == exp.shape, 'spec_append:shape', lambda: dict(got=out.shape, want=exp.shape, s1=case['s1'], s2=case['s2'], pixshift=ps))
        check(out.dtype == a.dtype, 'spec_append:dtype', lambda: dict(got=str(out.dtype)))
        check(np.array_equal(out, exp), 'spec_append:data-moved-or-lost', lambda: dict(got=out.tolist(), want=exp.tolist(), pixshift=ps))
        check(np.array_equal(a, ka) and np.array_equal(b, kb), 'spec_append:input-modified')


SUBCHECKS = [
    SubCheck('readspec_tree', tree_body, strategy=tree_case, classify=tree_classify, nontrivial=tree_nontrivial,
             quick=800, thorough=12000, shards=(16, 16), floor=0.01, doc='request-order oracle on generated spPlate/spZbest trees, four calling conventions'),
    SubCheck('spec_append', append_body, strategy=append_case,
             classify=lambda c: ['equal-width' if c['s1'][1] == c['s2'][1] else 'different-width', 'shift:%+d' % np.sign(c['pixshift']), c['dtype']],
             nontrivial=lambda c, l: c['pixshift'] != 0, quick=2000, thorough=50000, shards=(1, 8), doc='blocks at the documented offsets, zero padding only'),
]
