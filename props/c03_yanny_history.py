"""C03 -- yanny: object and file never diverge over write/append histories.

Hypothesis RuleBasedStateMachine; every rule turns its drawn arguments into a json *op*, records it and
hands it to Sim.apply(), which runs the op against the real yanny object + file and against an in-memory
model, then checks the invariants.  A failing history is {'raw': bool, 'ops': [...]} and replays through
the same Sim without Hypothesis.
"""
import os
import shutil
import tempfile
import warnings

import numpy as np
from hypothesis import strategies as st
from hypothesis.stateful import RuleBasedStateMachine, rule, precondition, initialize

from vk import SubCheck, Violation, call, judge, check
from vk.runner import scratch_root
from props import yannylib as Y

PROPERTY = 'C03'
LEVEL = 'exploration'
RULE = ('Hypothesis rule-based state machine (one variant per mode: record-array objects / raw=True objects); '
        'rules = create (write_ndarray_to_yanny of 1-2 generated tables + header, or a harness-written text file with unsized char[] columns opened with yanny()), append_rows (1-2 rows to a subset of '
        'tables, as dict-of-lists or record array, under the upper- or lower-case name, optionally with new pairs), '
        'append_pairs, append_empty, write_copy, write_over_existing (own file or another existing file), '
        'append_to_missing (a second object whose filename points nowhere; it must raise, create nothing, leave that object textually unchanged; optionally that object is then re-bound to the real file and becomes the live one), reread.  After every op: live object == model, fresh yanny(filename) == model (record and raw '
        'view), file bytes extend the bytes before the op (identical after refused/empty ops), no unknown file appears, '
        'other files untouched, object still bound to its file.  Non-trivial = history with >=1 successful append followed '
        'later by reread/write_copy and >=1 refused operation; distinct = distinct op-sequence hash.')
RULE += '  Also: keywords struct/enum, zero-row append items, char[] starting files.'
RULE += ' Round 5: write onto an existing zero-length file.'
ASSUMPTIONS = [
    'appended pairs use keywords that are new (case-sensitively) and differ case-insensitively from every table name; not the word symbols, which append() documents as a key it skips',
    'strings/values as in C01 (texts the format cannot express are not generated); rows given as lists hold Python int/float/str',
    'the timestamp comment that append() writes is not compared (only prefix preservation of earlier bytes is)',
]


class Sim(object):
    def __init__(self, raw):
        self.raw = raw
        self.dir = tempfile.mkdtemp(prefix='vk_c03_', dir=scratch_root())
        self.n = 0
        self.obj = None
        self.fn = None
        self.tables = []      # model: ordered table specs (rows grow)
        self.pairs = []       # model: ordered [key, text]
        self.files = {}       # path -> bytes as of the last step
        self.labels = set()

    def close(self):
        shutil.rmtree(self.dir, ignore_errors=True)

    def newname(self):
        self.n += 1
        return os.path.join(self.dir, 'f%d.par' % self.n)

    # ------------------------------------------------------------ ops
    def apply(self, op):
        from pydl.pydlutils.yanny import yanny, write_ndarray_to_yanny
        from pydl.pydlutils import PydlutilsException, PydlutilsUserWarning
        kind = op['op']
        before = dict(self.files)
        grew = None
        if kind == 'create':
            self.tables = [dict(t, rows=[list(r) for r in t['rows']]) for t in op['tables']]
            self.pairs = [[k, Y.pair_text(v)] for k, v in op['hdr']]
            fn = self.newname()
            arrays = tuple(Y.build_recarray(t) for t in self.tables)
            self.obj = call(write_ndarray_to_yanny, fn, arrays, structnames=tuple(t['name'] for t in self.tables),
                            enums=Y.enums_dict(self.tables), hdr={k: v for k, v in op['hdr']} or None)
            self.fn = fn
            grew = fn
            if self.raw:
                self.obj = call(yanny, fn, raw=True)
        elif kind == 'create_text':
            # the history starts from a file somebody else wrote (may hold unsized char[] columns), opened with yanny()
            self.tables = [dict(t, rows=[list(r) for r in t['rows']]) for t in op['tables']]
            self.pairs = [[k, Y.pair_text(v)] for k, v in op['hdr']]
            fn = self.newname()
            with open(fn, 'w') as f:
                text = Y.render_simple(self.tables, op['hdr'])
                if op.get('nofinalnl') and text.endswith('\n'):
                    # a file whose last line is not terminated (round 9): what is appended later must not run into it
                    text = text[:-1]
                f.write(text)
            self.obj = call(yanny, fn, raw=self.raw)
            self.fn = fn
            grew = fn
        elif kind == 'append':
            payload = {}
            for it in op['items']:
                t = self.tables[it['table'] % len(self.tables)]
                key = t['name'].upper() if it['case'] == 'upper' else t['name'].lower()
                if key in payload or key.upper() in {k.upper() for k in payload}:
                    continue
                rows = it['rows']
                if it['form'] in ('recarray', 'recarray-reordered'):
                    ra_ = Y.build_recarray(dict(t, rows=rows))
                    if it['form'] == 'recarray-reordered' and len(ra_.dtype.names) > 1:
                        # the same named fields, laid out in reverse order (fields are identified by name, not by position)
                        names = list(ra_.dtype.names)[::-1]
                        rb_ = np.zeros(len(ra_), dtype=[(n_, ra_.dtype[n_]) for n_ in names])
                        for n_ in names:
                            rb_[n_] = ra_[n_]
                        ra_ = rb_
                    payload[key] = ra_
                else:
                    payload[key] = {c['name']: [self.pyval(c, r[j]) for r in rows] for j, c in enumerate(t['cols'])}
                t['rows'].extend([list(r) for r in rows])
            for k, v in op['pairs']:
                payload[k] = v
                self.pairs.append([k, Y.pair_text(v)])
            nothing = not op['pairs'] and not any(it['rows'] for it in op['items'])
            with warnings.catch_warnings(record=True) as w:
                warnings.simplefilter('always')
                call(self.obj.append, payload, what='append')
            warned = any(issubclass(x.category, PydlutilsUserWarning) for x in w)
            check(warned == nothing, 'append-nothing-warning-wrong', lambda: dict(warned=warned, nothing_to_append=nothing))
            grew = self.fn
            self.labels.add('append')
        elif kind == 'append_empty':
            with warnings.catch_warnings(record=True) as w:
                warnings.simplefilter('always')
                call(self.obj.append, {}, what='append-empty')
            check(any(issubclass(x.category, PydlutilsUserWarning) for x in w), 'append-empty-did-not-warn')
            self.labels.add('empty')
        elif kind == 'write_copy':
            fn = self.newname()
            if op.get('comments') is None:
                call(self.obj.write, fn, what='write-copy')
            else:
                call(self.obj.write, fn, comments=op['comments'], what='write-copy')
            self.fn = fn
            grew = fn
            self.labels.add('copy')
        elif kind == 'write_over':
            target = self.fn
            if op['target'] == 'empty':
                # an existing file of length zero (a placeholder made by another program) is an existing file too
                target = os.path.join(self.dir, 'empty%d.par' % self.n)
                open(target, 'w').close()
                before[target] = b''
            if op['target'] == 'other':
                others = sorted(p for p in self.files if p != self.fn)
                if others:
                    target = others[op.get('which', 0) % len(others)]
            try:
                if target == self.fn and op.get('implicit', True):
                    call(self.obj.write, allowed=(PydlutilsException,), what='write-over')
                else:
                    call(self.obj.write, target, allowed=(PydlutilsException,), what='write-over')
            except PydlutilsException:
                pass
            else:
                raise Violation('write-over-existing-did-not-raise', dict(target=os.path.basename(target)))
            self.labels.add('refused')
        elif kind == 'append_missing':
            other = call(yanny, self.fn, raw=self.raw)
            missing = os.path.join(self.dir, 'missing%d.par' % self.n)
            other.filename = missing
            t = self.tables[0]
            payload = {'zz_newkey': 'v'}
            if op.get('rows') and t['rows']:
                payload[t['name'].upper()] = {c['name']: [self.pyval(c, t['rows'][0][j])] for j, c in enumerate(t['cols'])}
            text_before = str(other)
            try:
                call(other.append, payload, allowed=(PydlutilsException,), what='append-missing')
            except PydlutilsException:
                pass
            else:
                raise Violation('append-to-missing-did-not-raise')
            check(not os.path.exists(missing), 'append-created-a-file')
            check(str(other) == text_before, 'refused-append-changed-the-object', lambda: dict(extra=str(other)[len(text_before):][:200]))
            self.labels.add('refused')
            if op.get('adopt'):
                # the object that experienced the refusal is pointed back at the real file and becomes the live object
                other.filename = self.fn
                self.obj = other
        elif kind == 'reread':
            self.obj = call(yanny, self.fn, raw=self.raw)
            self.labels.add('reread')
        else:
            raise AssertionError('unknown op %r' % kind)
        self.invariants(before, grew)

    @staticmethod
    def pyval(col, v):
        if col['alen']:
            return [Sim.pyval(dict(col, alen=0), x) for x in v]
        if col['kind'] in ('f4', 'f8'):
            return float(v)
        return v

    # ------------------------------------------------------------ invariants
    def view(self, obj, label, raw):
        with judge(label):
            check(list(obj.tables()) == [t['name'].upper() for t in self.tables], label + ':table-names',
                  lambda: dict(got=list(obj.tables())))
            for t in self.tables:
                got = obj[t['name'].upper()]
                Y.compare_table(got, t, check, label, raw=raw)
            got = [[k, obj[k]] for k in obj.pairs()]
            check(got == self.pairs, label + ':pairs', lambda: dict(got=got, want=self.pairs))

    def invariants(self, before, grew):
        from pydl.pydlutils.yanny import yanny
        # (v) no unknown file, other files untouched
        now = {}
        for name in sorted(os.listdir(self.dir)):
            p = os.path.join(self.dir, name)
            with open(p, 'rb') as f:
                now[p] = f.read()
        for p in now:
            if p not in before and p != grew:
                raise Violation('unexpected-file-appeared', os.path.basename(p))
        for p, b in before.items():
            check(p in now, 'file-disappeared', os.path.basename(p))
            if p == grew:
                # (iii) earlier lines preserved byte for byte
                check(now[p].startswith(b), 'earlier-bytes-not-preserved',
                      lambda: dict(file=os.path.basename(p), before=b[-200:].decode('ascii', 'replace'),
                                   after=now[p][:len(b)][-200:].decode('ascii', 'replace')))
            else:
                check(now[p] == b, 'file-changed-by-refused-or-unrelated-op', os.path.basename(p))
        self.files = now
        check(self.obj.filename == self.fn, 'object-bound-to-wrong-file',
              lambda: dict(got=os.path.basename(self.obj.filename), want=os.path.basename(self.fn)))
        # (i) live object, (ii) fresh reads
        self.view(self.obj, 'live', self.raw)
        self.view(call(yanny, self.fn), 'fresh', False)
        self.view(call(yanny, self.fn, raw=True), 'fresh-raw', True)


# ---------------------------------------------------------------------- replay body
def body(case):
    sim = Sim(case['raw'])
    try:
        for op in case['ops']:
            sim.apply(op)
    finally:
        sim.close()


def classify(case):
    ops = [o['op'] for o in case['ops']]
    out = sorted(set('op:' + o for o in ops)) + ['raw' if case['raw'] else 'recarray', 'len:%d' % min(10 * (len(ops) // 10), 40)]
    for o in case['ops']:
        if o['op'] == 'append':
            for it in o['items']:
                out.append('append-form:' + it['form'])
                out.append('append-key:' + it['case'])
            if o['pairs']:
                out.append('append-with-pairs')
        if o['op'] == 'write_over':
            out.append('write-over:' + o['target'])
        if o['op'] == 'write_copy' and isinstance(o.get('comments'), list):
            out.append('copy-with-comment-list')
        if o['op'] == 'append' and any(not it['rows'] for it in o['items']) and any(it['rows'] for it in o['items']):
            out.append('append-with-empty-table-entry')
        if o['op'] == 'append_missing' and o.get('adopt'):
            out.append('refused-object-adopted')
        if o['op'] == 'create_text' and any(c['kind'] == 'V' for t in o['tables'] for c in t['cols']):
            out.append('char[]-columns')
    return sorted(set(out))


def nontrivial(case, labels):
    ops = [o['op'] for o in case['ops']]
    if 'append' not in ops:
        return False
    first = ops.index('append')
    later = ops[first + 1:]
    return ('reread' in later or 'write_copy' in later) and ('write_over' in ops or 'append_missing' in ops)


# ---------------------------------------------------------------------- machine
APPENDABLE = ('i2', 'i4', 'i8', 'f4', 'f8', 'S', 'S', 'E')


def make_machine(raw):
    def factory(ex):
        class YannyHistory(RuleBasedStateMachine):
            def __init__(self):
                super().__init__()
                self.sim = Sim(raw)
                self.case = dict(raw=raw, ops=[])
                self.dead = False

            def teardown(self):
                self.sim.close()
                if not self.dead and self.case['ops']:
                    ex.done(self.case)

            def step(self, op):
                if self.dead:
                    return
                self.case['ops'].append(op)
                if not ex.guard(self.case, lambda: self.sim.apply(op)):
                    self.dead = True

            @initialize(data=st.data())
            def create(self, data):
                nt = data.draw(st.sampled_from([1, 1, 2]))
                names = data.draw(Y.struct_names(nt))
                tables = [data.draw(Y.table_spec(n, kinds=APPENDABLE, max_rows=3)) for n in names]
                Y.fix_enums(tables)
                Y.fix_last_column(tables)
                taken = {t['name'].upper() for t in tables}
                keys = data.draw(st.lists(Y.keyword.filter(lambda k: k.upper() not in taken), max_size=2, unique=True))
                hdr = [[k, data.draw(Y.header_value())] for k in keys]
                if data.draw(st.integers(0, 2)) == 0:
                    # start from a text file with unsized char[] columns (each holding a non-empty value)
                    for t in tables:
                        for j, c in enumerate(t['cols']):
                            if c['kind'] == 'S' and data.draw(st.booleans()):
                                c['kind'] = 'V'
                                if not t['rows']:
                                    t['rows'].append([data.draw(Y.cell_strategy(cc)) for cc in t['cols']])
                                    Y.fix_last_column([t])
                                flat = [x for r in t['rows'] for x in (r[j] if c['alen'] else [r[j]])]
                                if not any(flat):
                                    if c['alen']:
                                        t['rows'][0][j][0] = 'x'
                                    else:
                                        t['rows'][0][j] = 'x'
                    self.step(dict(op='create_text', tables=tables, hdr=hdr, nofinalnl=data.draw(st.sampled_from([True, False]))))
                else:
                    self.step(dict(op='create', tables=tables, hdr=hdr))

            def new_pairs(self, data, maxn):
                taken_tab = {t['name'].upper() for t in self.sim.tables}
                have = {k for k, v in self.sim.pairs}
                variants = [k.swapcase() for k in have] + [k.upper() for k in have] + [k.lower() for k in have]
                cand = st.one_of(Y.keyword, st.sampled_from(variants)) if variants else Y.keyword
                keys = data.draw(st.lists(cand.filter(lambda k: k.upper() not in taken_tab and k not in have and k not in ('zz_newkey', 'symbols')),
                                          min_size=0 if maxn > 1 else 1, max_size=maxn, unique=True))
                return [[k, data.draw(Y.header_value())] for k in keys]

            def new_rows(self, data):
                items = []
                nt = len(self.sim.tables)
                for ti in data.draw(st.lists(st.integers(0, nt - 1), min_size=1, max_size=nt, unique=True)):
                    t = self.sim.tables[ti]
                    nr = data.draw(st.sampled_from([1, 2, 1, 0]))      # 0: the table is named in the request but gets no rows
                    rows = [[data.draw(Y.cell_strategy(c)) for c in t['cols']] for _ in range(nr)]
                    Y.fix_last_column([dict(cols=t['cols'], rows=rows)])
                    items.append(dict(table=ti, case=data.draw(st.sampled_from(['upper', 'lower'])),
                                      form=data.draw(st.sampled_from(['dict', 'recarray', 'recarray-reordered'])), rows=rows))
                return items

            @rule(data=st.data())
            def append_rows(self, data):
                pairs = self.new_pairs(data, 2) if data.draw(st.integers(0, 2)) == 0 else []
                self.step(dict(op='append', items=self.new_rows(data), pairs=pairs))

            @rule(data=st.data())
            def append_pairs(self, data):
                self.step(dict(op='append', items=[], pairs=self.new_pairs(data, 1) or [['zz_p%d' % len(self.sim.pairs), 1]]))

            @rule()
            def append_empty(self):
                self.step(dict(op='append_empty'))

            @rule(comments=st.sampled_from([None, None, 'one line', '# already marked', ['first', 'second'], ['single']]))
            def write_copy(self, comments):
                self.step(dict(op='write_copy', comments=comments))

            @rule(tgt=st.sampled_from(['self', 'self', 'other', 'empty']), which=st.integers(0, 5), implicit=st.booleans())
            def write_over(self, tgt, which, implicit):
                self.step(dict(op='write_over', target=tgt, which=which, implicit=implicit))

            @rule(rows=st.booleans(), adopt=st.booleans())
            def append_missing(self, rows, adopt):
                self.step(dict(op='append_missing', rows=rows, adopt=adopt))

            @rule()
            def reread(self):
                self.step(dict(op='reread'))

        YannyHistory.__name__ = 'YannyHistory_' + ('raw' if raw else 'rec')
        return YannyHistory
    return factory


SUBCHECKS = [
    SubCheck('history_recarray', body, kind='stateful', machine=make_machine(False), classify=classify, nontrivial=nontrivial,
             quick=1200, thorough=40000, shards=(8, 16), steps=(20, 40), floor=0.02,
             doc='state machine over write/append histories, objects in record-array mode'),
    SubCheck('history_raw', body, kind='stateful', machine=make_machine(True), classify=classify, nontrivial=nontrivial,
             quick=1200, thorough=40000, shards=(8, 16), steps=(20, 40), floor=0.02,
             doc='same machine with raw=True objects (plain Python lists)'),
]
