"""Shared generators / model / comparison code for the yanny properties (C01, C02, C03, C07).

A *table spec* is json:  {'name': str, 'cols': [col, ...], 'rows': [[cell, ...], ...]}
      col = {'name': str, 'kind': 'i2|i4|i8|f4|f8|S|U|E', 'width': int (S/U/E), 'alen': 0|k,
             'etype': str, 'labels': [str]  (E only)}
      cell = int | float-as-json (see vk.f2j) | str | list of those (array column)
"""
import re

import numpy as np
from hypothesis import strategies as st

from vk import f2j

RESERVED = {'short', 'int', 'long', 'float', 'double', 'char', 'typedef', 'struct', 'enum', 'symbols'}
# characters the property names explicitly: blank, tab, '#', ';', braces, plus a few others
# ... and the ASCII separators that Python counts as line boundaries / whitespace but the format does not (form feed, vertical tab, FS, RS)
ALPHA = 'abXY09 \t#;{}\',.:=\\-_/+*()[]<>|@!?~^&%$\x0b\x0c\x1c\x1e'
ident = st.from_regex(r'[A-Za-z][A-Za-z0-9_]{0,7}', fullmatch=True).filter(lambda s: s.lower() not in RESERVED)
# header keywords: any identifier, also the words the parser uses for its own bookkeeping (a pair may be called struct or enum)
keyword = st.one_of(ident, ident, ident, st.sampled_from(['struct', 'enum', 'STRUCT', 'Enum', 'symbols']))
DOUBLE_BRACE = re.compile(r'\{\s*\{\s*\}\s*\}')

DOUBLE_BRACE_TOKEN = re.compile(r'("[^"]*")|(?<!\S)\{\s*\{\s*\}\s*\}(?!\S)')


def double_brace_tokens(line):
    """number of {{}} groups that stand as a token of their own outside double quotes (= empty strings); the same characters
    inside a word or a quoted string are data"""
    return sum(1 for m in DOUBLE_BRACE_TOKEN.finditer(line) if m.group(1) is None)


INT_RANGE = {'i2': (-2 ** 15, 2 ** 15 - 1), 'i4': (-2 ** 31, 2 ** 31 - 1), 'i8': (-2 ** 63, 2 ** 63 - 1)}


def string_ok(s, in_array=False):
    """Texts the format can express (the complement is listed in the property)."""
    if s.startswith('{'):
        return False
    if in_array and '}' in s:
        return False
    # ({{}} inside a string is data like any other inner brace - D60; in an array element it contains a '}' and is excluded above)
    return True


def text(width, in_array=False, alphabet=ALPHA):
    base = st.one_of(
        st.sampled_from(['', ' ', 'a b', '#', 'a#b', ';', 'a;b', 'x{y}z', 'a{{}}b', 'x {{}} z', 'q{ { } }', '\t', 'a\tb', "it's", '\\', 'a\\b', '-1', '1e5', 'nan', 'p1\x0cp2', 'a\x0bb']),
        st.text(alphabet=alphabet, max_size=width))
    return base.map(lambda s: s[:width]).filter(lambda s: string_ok(s, in_array))


def int_cell(kind):
    lo, hi = INT_RANGE[kind]
    return st.one_of(st.sampled_from([lo, lo + 1, -1, 0, 1, hi - 1, hi]), st.integers(lo, hi))


def float_cell(kind):
    w = 32 if kind == 'f4' else 64
    special = [0.0, -0.0, float('inf'), float('-inf'), float('nan'), 1e30, -1e30, 1.0, 0.1, 1e-40, 3.4028234663852886e+38,
               1.401298464324817e-45] + ([] if w == 32 else [1.7976931348623157e308, 5e-324, 2.2250738585072014e-308, 1e-310])
    return st.one_of(st.sampled_from(special).map(lambda x: float(np.float32(x)) if w == 32 else x),
                     st.floats(width=w, allow_nan=True, allow_infinity=True, allow_subnormal=True)).map(f2j)


def cell_strategy(col):
    k = col['kind']
    if k in INT_RANGE:
        one = int_cell(k)
    elif k in ('f4', 'f8'):
        one = float_cell(k)
    elif k == 'E':
        one = st.sampled_from(col['labels'])
    elif k == 'V':
        one = text(12, in_array=col['alen'] > 0)
    else:
        one = text(col['width'], in_array=col['alen'] > 0)
    if col['alen']:
        return st.lists(one, min_size=col['alen'], max_size=col['alen'])
    return one


@st.composite
def column_spec(draw, name, kinds=('i2', 'i4', 'i8', 'f4', 'f8', 'S', 'S', 'E')):
    kind = draw(st.sampled_from(kinds))
    col = dict(name=name, kind=kind, width=0, alen=draw(st.sampled_from([0, 0, 0, 1, 2, 3, 0, 10, 12])))
    if kind in ('S', 'U'):
        col['width'] = draw(st.integers(1, 10))
    if kind == 'E':
        # an enumerated column may be an array of labels too (round 9)
        col['alen'] = draw(st.sampled_from([0, 0, 0, 2, 3]))
        # (the writer spells the type name in upper case; LONG, FLOAT, ... are not the C keywords long, float, ...)
        col['etype'] = draw(st.one_of(ident, ident, ident, st.sampled_from(['long', 'Int', 'SHORT', 'float', 'Double'])))
        col['labels'] = draw(st.lists(st.from_regex(r'[A-Z][A-Z0-9_]{0,6}', fullmatch=True), min_size=1, max_size=4, unique=True))
        col['width'] = max(len(x) for x in col['labels']) + draw(st.integers(0, 2))
    return col


@st.composite
def table_spec(draw, name, kinds=('i2', 'i4', 'i8', 'f4', 'f8', 'S', 'S', 'E'), max_rows=5, min_rows=0):
    ncol = draw(st.integers(1, 5))
    names = draw(st.lists(ident, min_size=ncol, max_size=ncol, unique=True))
    cols = [draw(column_spec(n, kinds)) for n in names]
    nrow = draw(st.sampled_from([r for r in (0, 1, 1, 2, 3, max_rows) if r >= min_rows]))
    rows = [[draw(cell_strategy(c)) for c in cols] for _ in range(nrow)]
    return dict(name=name, cols=cols, rows=rows)


@st.composite
def struct_names(draw, n):
    """n structure names, distinct case-insensitively, often substrings of each other."""
    names = []
    tries = 0
    while len(names) < n:
        tries += 1
        mode = draw(st.sampled_from(['fresh', 'fresh', 'extend', 'prefix'])) if names else 'fresh'
        if mode == 'fresh' or tries > 20:
            # 'enum' / 'struct' are legal structure names (only column names collide with the C type keywords)
            cand = draw(st.one_of(ident, ident, ident, st.sampled_from(['ENUM', 'struct', 'Struct', 'enum'])))
        elif mode == 'extend':
            cand = draw(st.sampled_from(names)) + draw(st.from_regex(r'[A-Za-z0-9_]{1,3}', fullmatch=True))
        else:
            cand = draw(st.from_regex(r'[A-Za-z][A-Za-z0-9_]{0,2}', fullmatch=True)) + draw(st.sampled_from(names))
        if (cand.lower() in RESERVED and cand.lower() not in ('struct', 'enum')) or cand.upper() in {x.upper() for x in names}:
            if tries > 40:
                cand = 'T%d%s' % (len(names), ''.join(names))[:30]
            else:
                continue
        names.append(cand)
    return names


def fix_last_column(tables):
    """A backslash ending the last column of a row is a line continuation (outside the guarantee)."""
    for t in tables:
        c = t['cols'][-1]
        if c['kind'] in ('S', 'U', 'V') and not c['alen']:
            for r in t['rows']:
                r[-1] = r[-1].rstrip('\\')


def fix_enums(tables):
    """The enums dict of the writer is keyed by column name for the whole file: an enum column
    whose name also occurs elsewhere (or whose type name clashes) is demoted to a plain string column."""
    # (a numeric column of the same name in another table is no clash: the writer consults its enums dict for string columns only)
    seen_cols = {}
    for t in tables:
        for c in t['cols']:
            if c['kind'] in ('S', 'U', 'V', 'E'):
                seen_cols[c['name']] = seen_cols.get(c['name'], 0) + 1
    etypes = set()
    tnames = {t['name'].upper() for t in tables}
    for t in tables:
        for c in t['cols']:
            if c['kind'] == 'E':
                et = c['etype'].upper()
                if seen_cols[c['name']] > 1 or et in etypes or et in tnames:
                    c['kind'] = 'S'
                    c.pop('etype')
                    c.pop('labels')
                else:
                    etypes.add(et)


def np_dtype(cols, unicode_ok=False, byteorder='<'):
    dt = []
    for c in cols:
        k = c['kind']
        if k == 'i8' and byteorder == 'q':
            k = np.dtype(np.longlong)            # the same 64-bit integers under their C name (dtype.char 'q', dtype.str '<i8')
        elif k in INT_RANGE or k in ('f4', 'f8'):
            k = ('<' if byteorder == 'q' else byteorder) + k
        if k in ('S', 'E'):
            base = 'S%d' % c['width']
        elif k == 'V':
            base = 'S12'
        elif k == 'U':
            base = 'U%d' % c['width']
        else:
            base = k
        dt.append((c['name'], base, (c['alen'],)) if c['alen'] else (c['name'], base))
    return np.dtype(dt)


def from_json_cell(col, v):
    k = col['kind']
    if col['alen']:
        return [from_json_cell(dict(col, alen=0), x) for x in v]
    if k in ('f4', 'f8'):
        return float(v)
    if k in ('S', 'E', 'V'):
        return v.encode('ascii')
    return v


def build_recarray(table, byteorder='<'):
    dt = np_dtype(table['cols'], byteorder=byteorder)
    a = np.zeros(len(table['rows']), dtype=dt)
    for j, c in enumerate(table['cols']):
        if len(table['rows']):
            a[c['name']] = [from_json_cell(c, r[j]) for r in table['rows']]
    return a


def enums_dict(tables):
    out = {}
    for t in tables:
        for c in t['cols']:
            if c['kind'] == 'E':
                out[c['name']] = (c['etype'], list(c['labels']))
    return out or None


def bits(x, kind):
    a = np.asarray(x, dtype=kind)
    u = a.view('u4' if kind == 'f4' else 'u8').copy()
    u[np.isnan(a)] = 0xFFFFFFFF    # all NaNs identified
    return u


def compare_table(got, table, check, label, raw=False):
    """got: numpy record array read back (or dict of lists in raw mode); table: spec."""
    cols = table['cols']
    n = len(table['rows'])
    if raw:
        check(list(got.keys()) == [c['name'] for c in cols], label + ':columns', lambda: dict(got=list(got.keys())))
        for j, c in enumerate(cols):
            want = [r[j] for r in table['rows']]
            have = got[c['name']]
            check(len(have) == n, label + ':nrows', lambda: dict(col=c['name'], got=len(have), want=n))
            for a, b in zip(have, want):
                aa = a if c['alen'] else [a]
                bb = b if c['alen'] else [b]
                check(len(aa) == len(bb), label + ':array-length', lambda: dict(col=c['name'], got=a, want=b))
                for x, y in zip(aa, bb):
                    if c['kind'] in ('f4', 'f8'):
                        # raw mode: plain Python float of the text; compare in the declared width
                        check(type(x) is float, label + ':raw-type', lambda: dict(col=c['name'], got=repr(x)))
                        ok = bits([x], c['kind'])[0] == bits([float(y)], c['kind'])[0]
                    elif c['kind'] in INT_RANGE:
                        check(type(x) is int, label + ':raw-type', lambda: dict(col=c['name'], got=repr(x)))
                        ok = x == y
                    else:
                        check(type(x) is str, label + ':raw-type', lambda: dict(col=c['name'], got=repr(x)))
                        ok = x == y
                    check(ok, label + ':raw-value', lambda: dict(col=c['name'], got=repr(x), want=repr(y)))
        return
    check(got.dtype.names is not None and list(got.dtype.names) == [c['name'] for c in cols], label + ':column-order',
          lambda: dict(got=list(got.dtype.names or ()), want=[c['name'] for c in cols]))
    check(len(got) == n, label + ':nrows', lambda: dict(got=len(got), want=n))
    for j, c in enumerate(cols):
        g = np.asarray(got[c['name']])
        k = c['kind']
        shape = (n, c['alen']) if c['alen'] else (n,)
        check(g.shape == shape, label + ':shape', lambda: dict(col=c['name'], got=g.shape, want=shape))
        if k in INT_RANGE or k in ('f4', 'f8'):
            check(g.dtype == np.dtype(k), label + ':dtype', lambda: dict(col=c['name'], got=str(g.dtype), want=k))
        else:
            check(g.dtype.kind == 'S', label + ':dtype', lambda: dict(col=c['name'], got=str(g.dtype), want='S'))
            if k == 'S':
                check(g.dtype.itemsize == c['width'], label + ':string-width',
                      lambda: dict(col=c['name'], got=g.dtype.itemsize, want=c['width']))
            if k == 'V' and n:
                flat = [x for r in table['rows'] for x in (r[j] if c['alen'] else [r[j]])]
                want_w = max(len(x) for x in flat)
                check(g.dtype.itemsize == want_w, label + ':char[]-width-not-longest-value',
                      lambda: dict(col=c['name'], got=g.dtype.itemsize, want=want_w))
        if n == 0:
            continue
        want = [from_json_cell(c, r[j]) for r in table['rows']]
        if k in ('f4', 'f8'):
            ok = np.array_equal(bits(g, k), bits(want, k))
        elif k in INT_RANGE:
            ok = np.array_equal(g, np.asarray(want, dtype=k))
        else:
            def enc(v):
                return [enc(x) for x in v] if isinstance(v, list) else v.encode('ascii')
            ok = g.tolist() == [enc(r[j]) for r in table['rows']]
        check(ok, label + ':values:' + k, lambda: dict(col=c['name'], got=g.tolist(), want=[r[j] for r in table['rows']]))


def pair_text(v):
    if isinstance(v, str):
        return v
    return '{}'.format(v)


def header_value():
    txt = st.text(alphabet='abXY09 \t;{}\',.:=-_/+*()[]<>|@!?~^&%$\x0c\x1e', max_size=10).map(lambda s: s.strip()).filter(
        lambda s: not s.endswith('\\'))
    return st.one_of(st.integers(-10 ** 9, 10 ** 9), st.floats(allow_nan=False, allow_infinity=False, width=64), txt,
                     st.sampled_from(['', 'beta gamma delta', '54579', "a 'quoted' word", '{1 2 3}', 'v {{}} w', '{{}}', 'a{{}}', 'x;y', '1.5e-3']))


def classify_tables(tables):
    out = []
    if len(tables) > 1:
        out.append('multi-table')
    names = [t['name'].upper() for t in tables]
    if any(a != b and a in b for a in names for b in names):
        out.append('substring-names')
    colnames = {c['name'].upper() for t in tables for c in t['cols']}
    if any(n in colnames for n in names):
        out.append('name-equals-column')
    for t in tables:
        if not t['rows']:
            out.append('zero-rows')
            if any(c['alen'] for c in t['cols']):
                out.append('zero-rows+array')
        for j, c in enumerate(t['cols']):
            k = c['kind']
            if c['alen']:
                out.append('array-col')
            if k == 'E':
                out.append('enum-col')
            if k == 'U':
                out.append('unicode-col')
            for r in t['rows']:
                vals = r[j] if c['alen'] else [r[j]]
                for v in vals:
                    if k in INT_RANGE and v in INT_RANGE[k]:
                        out.append('extreme-int')
                    elif k in ('f4', 'f8'):
                        f = float(v)
                        if f != f or f in (float('inf'), float('-inf')):
                            out.append('nonfinite-float')
                        elif f != 0 and abs(f) < (1.1754943508222875e-38 if k == 'f4' else 2.2250738585072014e-308):
                            out.append('denormal-float')
                        elif abs(f) >= 1e30:
                            out.append('huge-float')
                    elif k in ('S', 'U'):
                        if v == '':
                            out.append('str-empty')
                        elif re.search(r'\s', v):
                            out.append('str-blank')
                        if '#' in v:
                            out.append('str-hash')
                        if ';' in v:
                            out.append('str-semicolon')
                        if '{' in v or '}' in v:
                            out.append('str-brace')
    return sorted(set(out))


NONTRIVIAL_LABELS = {'str-empty', 'str-blank', 'str-hash', 'str-semicolon', 'str-brace', 'extreme-int', 'nonfinite-float',
                     'denormal-float', 'huge-float', 'array-col', 'enum-col', 'multi-table', 'has-header', 'unicode-col'}


CTYPE = {'i2': 'short', 'i4': 'int', 'i8': 'long', 'f4': 'float', 'f8': 'double'}


def render_simple(tables, hdr):
    """A plain, canonical rendering of tables (incl. unsized char[] columns, kind 'V') and header pairs as parameter-file text."""
    out = ['#%yanny', '# written by the harness']
    for k, v in hdr:
        out.append('%s %s' % (k, pair_text(v)))
    for t in tables:
        for c in t['cols']:
            if c['kind'] == 'E':
                out.append('typedef enum {\n' + ',\n'.join('    ' + l for l in c['labels']) + '\n} %s;' % c['etype'].upper())
    for t in tables:
        out.append('typedef struct {')
        for c in t['cols']:
            k = c['kind']
            ty = CTYPE.get(k, 'char' if k in ('S', 'V') else c.get('etype', '').upper())
            d = ' %s %s' % (ty, c['name'])
            if c['alen']:
                d += '[%d]' % c['alen']
            if k == 'S':
                d += '[%d]' % c['width']
            if k == 'V':
                d += '[]'
            out.append(d + ';')
        out.append('} %s;' % t['name'].upper())

    def cell(c, v):
        if isinstance(v, list):
            return '{' + ' '.join(cell(dict(c, alen=0), x) for x in v) + '}'
        if c['kind'] in ('S', 'V'):
            return '"' + v + '"'
        if c['kind'] in ('f4', 'f8'):
            return repr(float(v))
        return str(v)
    for t in tables:
        for r in t['rows']:
            out.append(' '.join([t['name'].upper()] + [cell(c, v) for c, v in zip(t['cols'], r)]))
    return '\n'.join(out) + '\n'
