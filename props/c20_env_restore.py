"""C20 -- a failing pipeline call leaves the process environment as it found it.

Injected-fault enumeration: every collaborator the two entry points call is replaced (in the namespace of
the module under test) by a counting wrapper.  A clean run records the call sequence (length N); then the
k-th call is made to raise, for every k in 1..N and every exception class.  Scenarios (initial environment,
options, parameter-file variants) are generated; the fault points of each scenario are enumerated exhaustively.
"""
import os
import pickle as _pickle
from unittest import mock

import numpy as np
from hypothesis import strategies as st

from vk import SubCheck, Violation, call, judge, check, note_label, note_count
from vk.runner import tmpdir
from props import c16_readspec as C16

PROPERTY = 'C20'
LEVEL = 'fault_enumeration'
EVAL_COUNTER = 'fault_runs'
NONTRIVIAL_COUNTER = 'nontrivial_fault_runs'
RULE = ('scenarios x exhaustive fault points.  Scenario = initial state of the touched variables (PHOTO_CALIB, PHOTO_RESOLVE / RUN2D, RUN1D: every '
        'set/unset combination, enumerated in the grid sub-checks and drawn in the Hypothesis ones), unrelated environment variables, options '
        '(rescore; flux plots, existing dump file) and, for template_input, the parameter file (pca/hmf x gal/qso/star, missing keyword, '
        'non-numeric value, missing HMF keys, missing EIGENOBJ table, unreadable file).  For each scenario a clean run records the N '
        'collaborator calls (environment reads, file open, scoring, writing, closing / metadata file, Julian date, path tests, pickle, readspec, '
        'skymask, wavevector, preprocess_spectra, solvers, median, interpolation, plotting, FITS writing, remove); then call k raises, for all k in '
        '1..N and each of OSError, KeyError, ValueError, RuntimeError, the package exception and a BaseException subclass (an interrupt arriving inside a stage).  Oracle after every run: dict(os.environ) equals '
        'the snapshot taken before the call.  An evaluation = one (scenario, k, exception) execution; non-trivial = the fault is injected '
        'after the point where the variable was modified; distinct = distinct (scenario hash, k, exception).')
RULE += '  Also: parameter files with extra keywords spelled like environment variables, a scenario in which the real readspec runs on a synthetic survey tree.'
RULE += ' Round 5: verbose=True.'
ASSUMPTIONS = ['failure points are enumerated at collaborator-call granularity (not between arbitrary bytecodes); the restoring assignment itself is not a fault target',
               'collaborators are light stubs returning well-formed values (template stages take milliseconds); template_metadata, wavevector, djs_median, djs_maskinterp, '
               'get_juldate and the astropy FITS object construction run for real',
               'environment writes go to the real os.environ; reads are counted through a proxy']

EXC = ['OSError', 'KeyError', 'ValueError', 'RuntimeError', 'package', 'abort']
ALLCALL_EXC = ['RuntimeError', 'abort', 'OSError']


class Abort(BaseException):
    """stands for KeyboardInterrupt / SystemExit arriving inside a stage: not an Exception subclass"""



class Injected(object):
    def __init__(self, pkgexc):
        self.calls = []
        self.k = None
        self.exc = None
        self.pkgexc = pkgexc
        self.mod_at = None          # number of calls made when the environment first differed from the snapshot
        self.snapshot = None

    def hit(self, name):
        self.calls.append(name)
        if self.mod_at is None and self.snapshot is not None and dict(os.environ) != self.snapshot:
            self.mod_at = len(self.calls)
        if self.k is not None and len(self.calls) == self.k:
            cls = dict(OSError=OSError, KeyError=KeyError, ValueError=ValueError, RuntimeError=RuntimeError, package=self.pkgexc, abort=Abort)[self.exc]
            raise cls('injected fault at call %d (%s)' % (self.k, name))

    def wrap(self, name, fn):
        def w(*a, **kw):
            self.hit(name)
            return fn(*a, **kw)
        return w


class EnvProxy(object):
    """os.environ whose *reads* are counted fault points; writes/deletes go straight to the real mapping."""

    def __init__(self, inj):
        self._inj = inj

    def __getitem__(self, k):
        self._inj.hit('environ[%s]' % k)
        return os.environ[k]

    def get(self, k, default=None):
        self._inj.hit('environ.get(%s)' % k)
        return os.environ.get(k, default)

    def __contains__(self, k):
        return k in os.environ

    def __setitem__(self, k, v):
        os.environ[k] = v

    def __delitem__(self, k):
        del os.environ[k]

    def pop(self, *a):
        return os.environ.pop(*a)

    def update(self, *a, **kw):
        return os.environ.update(*a, **kw)

    def keys(self):
        return os.environ.keys()

    def __iter__(self):
        return iter(os.environ)

    def __len__(self):
        return len(os.environ)

    def setdefault(self, k, default=None):
        self._inj.hit('environ.setdefault(%s)' % k)
        return os.environ.setdefault(k, default)

    def __getattr__(self, n):
        # the rest of the mapping interface (items, values, copy, ...) goes to the real mapping
        return getattr(os.environ, n)


class PathProxy(object):
    def __init__(self, inj):
        self._inj = inj

    def exists(self, p):
        self._inj.hit('os.path.exists')
        return os.path.exists(p)

    def __getattr__(self, n):
        return getattr(os.path, n)


class OsProxy(object):
    def __init__(self, inj):
        self._inj = inj
        self.environ = EnvProxy(inj)
        self.path = PathProxy(inj)

    def remove(self, p):
        self._inj.hit('os.remove')

    def __getattr__(self, n):
        return getattr(os, n)


def set_env(state, extra):
    """state: dict var -> value or None"""
    for k, v in state.items():
        if v is None:
            os.environ.pop(k, None)
        else:
            os.environ[k] = v
    for k, v in extra:
        os.environ[k] = v


def enumerate_faults(runner, inj, scenario_label, touched, initially, excs=None):
    """runner(): executes the entry point once (exceptions swallowed, returned as text).  Returns (N, nfault, nnontrivial)."""
    def one(k, exc):
        inj.calls = []
        inj.k, inj.exc, inj.mod_at = k, exc, None
        before = dict(os.environ)
        inj.snapshot = before
        status = runner()
        inj.snapshot = None
        after = dict(os.environ)
        if after != before:
            diff = {v: [before.get(v), after.get(v)] for v in set(before) | set(after) if before.get(v) != after.get(v)}
            where = 'clean run' if k is None else 'fault %s at call %d/%s' % (exc, k, inj.calls[k - 1] if k <= len(inj.calls) else '?')
            other = sorted(set(diff) - set(touched))
            kind = 'environment-not-restored' if not other else 'unrelated-variable-changed'
            raise Violation('%s:%s' % (kind, '+'.join(sorted(diff))), dict(scenario=scenario_label, when=where, status=status, changed=diff, calls=inj.calls[:40]))
        # undo nothing: the environment is as before by the oracle
        return status, list(inj.calls), inj.mod_at
    status, calls, mod_at = one(None, None)
    n = len(calls)
    nf = nnt = 0
    for k in range(1, n + 1):
        for exc in (excs or EXC):
            st_, calls_k, mod_k = one(k, exc)
            nf += 1
            if mod_k is not None and k >= mod_k:
                nnt += 1
    note_count('fault_runs', nf + 1)
    note_count('nontrivial_fault_runs', nnt)
    note_count('fault_points', n)
    return status, n, nf, nnt



# ------------------------------------------------------------------ every call made by the package's own code
class CallMonitor(object):
    """Fault points without a hand-written list of collaborators: through sys.monitoring every CALL instruction executed by
    code objects of the module under test (the entry point, its helpers, nested functions) is an event; event k can be made
    to raise *before* the call happens.  LINE events are recorded too (never faulted) so that the state of the environment is
    known right after a call returns."""
    TOOL = 4

    def __init__(self, modules, pkgexc):
        import sys
        self.mon = sys.monitoring
        self.pkgexc = pkgexc
        self.codes = []
        for m in modules:
            fn = getattr(m, '__file__', None)
            for obj in list(vars(m).values()):
                co = getattr(obj, '__code__', None)
                if co is not None and co.co_filename == fn:
                    self._walk(co)
                elif isinstance(obj, type):
                    for a in vars(obj).values():
                        co = getattr(getattr(a, '__func__', a), '__code__', None)
                        if co is not None and co.co_filename == fn:
                            self._walk(co)
        self.reset(None, None, None)

    def _walk(self, co):
        if co in self.codes:
            return
        self.codes.append(co)
        for c in co.co_consts:
            if hasattr(c, 'co_code'):
                self._walk(c)

    def reset(self, k, exc, snapshot):
        self.k, self.exc, self.snapshot = k, exc, snapshot
        self.n = 0
        self.events = []       # (is_call, depth, distance, name)

    def _dist(self):
        if self.snapshot is None:
            return 0
        env = dict(os.environ)
        return sum(1 for v in set(env) | set(self.snapshot) if env.get(v) != self.snapshot.get(v))

    @staticmethod
    def _depth():
        import sys
        f = sys._getframe(2)
        d = 0
        while f is not None:
            d += 1
            f = f.f_back
        return d

    def _on_call(self, code, offset, callable_, arg0):
        self.n += 1
        name = getattr(callable_, '__qualname__', None) or getattr(callable_, '__name__', None) or type(callable_).__name__
        self.events.append((True, self._depth(), self._dist(), '%s <- %s' % (name, code.co_name)))
        if self.k is not None and self.n == self.k:
            cls = dict(OSError=OSError, KeyError=KeyError, ValueError=ValueError, RuntimeError=RuntimeError, package=self.pkgexc, abort=Abort)[self.exc]
            raise cls('injected fault at call event %d (%s)' % (self.k, name))

    def _on_line(self, code, line):
        self.events.append((False, self._depth(), self._dist(), 'line %d' % line))

    def __enter__(self):
        ev = self.mon.events
        self.mon.use_tool_id(self.TOOL, 'vk-c20')
        self.mon.register_callback(self.TOOL, ev.CALL, self._on_call)
        self.mon.register_callback(self.TOOL, ev.LINE, self._on_line)
        for co in self.codes:
            self.mon.set_local_events(self.TOOL, co, ev.CALL | ev.LINE)
        return self

    def __exit__(self, *a):
        for co in self.codes:
            self.mon.set_local_events(self.TOOL, co, 0)
        self.mon.register_callback(self.TOOL, self.mon.events.CALL, None)
        self.mon.register_callback(self.TOOL, self.mon.events.LINE, None)
        self.mon.free_tool_id(self.TOOL)


def enumerate_call_faults(runner, cm, scenario_label, touched, excs, stride=1, offset=0):
    """Clean run under the monitor, then one run per (call event k, exception class).  A call event is *not* a fault target when the
    environment is nearer to the entry snapshot right after that call returned than it was before it (the call is part of the
    restoration itself, e.g. os.environ.pop in a clean-up loop or a restoring helper)."""
    def one(k, exc):
        before = dict(os.environ)
        cm.reset(k, exc, before)
        with cm:
            status = runner()
        after = dict(os.environ)
        events = list(cm.events)
        if after != before:
            diff = {v: [before.get(v), after.get(v)] for v in set(before) | set(after) if before.get(v) != after.get(v)}
            calls = [e[3] for e in events if e[0]]
            where = 'clean run' if k is None else 'fault %s at call event %d: %s' % (exc, k, calls[k - 1] if k <= len(calls) else '?')
            other = sorted(set(diff) - set(touched))
            kind = 'environment-not-restored' if not other else 'unrelated-variable-changed'
            raise Violation('%s:%s' % (kind, '+'.join(sorted(diff))), dict(scenario=scenario_label, when=where, status=status, changed=diff,
                                                                           calls_before_fault=calls[max(0, (k or 0) - 8):(k or 0)]))
        return status, events
    status, events = one(None, None)
    targets = []
    ncall = 0
    for i, (is_call, depth, dist, name) in enumerate(events):
        if not is_call:
            continue
        ncall += 1
        after = 0                      # distance at exit of a clean run is 0 (checked above)
        for j in range(i + 1, len(events)):
            if events[j][1] <= depth:
                after = events[j][2]
                break
        if after < dist:
            note_count('restoring_calls_not_faulted')
            continue
        targets.append((ncall, dist))
    nf = nnt = 0
    for k, dist in targets[offset % stride::stride]:
        for exc in excs:
            one(k, exc)
            nf += 1
            nnt += 1 if dist > 0 else 0
    note_count('fault_runs', nf + 1)
    note_count('nontrivial_fault_runs', nnt)
    note_count('fault_points', len(targets))
    return status, len(targets), nf, nnt


# ------------------------------------------------------------------ window_score
class FakeHDU(object):
    def __init__(self, n):
        self.data = {'SCORE': np.zeros(n, dtype='f4')}
        self.header = {'NAXIS2': n}


class FakeHDUList(object):
    def __init__(self, inj, n=5):
        self._inj = inj
        self._h = [None, FakeHDU(n)]

    def __getitem__(self, i):
        self._inj.hit('flist[%d]' % i)
        return self._h[i]

    def writeto(self, *a, **k):
        self._inj.hit('flist.writeto')

    def close(self):
        self._inj.hit('flist.close')


def window_body(case):
    import pydl.photoop.window as W
    from pydl.photoop import PhotoopException
    inj = Injected(PhotoopException)
    state = {'PHOTO_CALIB': case['calib'], 'PHOTO_RESOLVE': case['resolve']}
    with tmpdir() as d:
        if state['PHOTO_RESOLVE'] == '@tmp':
            state['PHOTO_RESOLVE'] = d
        set_env(state, case['extra'])

        class FitsProxy(object):
            @staticmethod
            def open(fn, mode='readonly'):
                inj.hit('fits.open')
                if case['flist'] == 'missing':
                    raise OSError('no such file')
                return FakeHDUList(inj)

        def f_score(flist, silent=True):
            inj.hit('sdss_score')
            if case['flist'] == 'bad-table':
                raise KeyError('RUN')
            return np.ones(5, dtype='f4')

        def runner():
            with mock.patch.multiple(W, os=OsProxy(inj), fits=FitsProxy, sdss_score=f_score):
                try:
                    W.window_score(rescore=case['rescore'])
                    return 'ok'
                except (Exception, Abort) as e:  # noqa -- any failure is fine, only the environment matters
                    return '%s: %s' % (type(e).__name__, str(e)[:60])
        if case.get('allcalls'):
            status, n, nf, nnt = enumerate_call_faults(runner, CallMonitor([W], PhotoopException), dict(case), ('PHOTO_CALIB',), ALLCALL_EXC)
        else:
            status, n, nf, nnt = enumerate_faults(runner, inj, dict(case), ('PHOTO_CALIB',), state)
    note_label('clean:' + status.split(':')[0])
    note_label('fault-points:%d' % n)
    if nnt:
        note_label('faults-after-modification')


def window_allcalls_grid(tier):
    for c in window_grid(tier):
        c['allcalls'] = True
        yield c
    for calib in ('', '~/photo/calib', '/data/calib ', ' '):          # round 11: values with white space at the ends come back exactly
        yield dict(calib=calib, resolve='@tmp', rescore=True, flist='ok', extra=[['PHOTO_CALIB_SAVE', 'x']], allcalls=True)


def window_grid(tier):
    for calib in ('/calib/dir', None):
        for resolve in ('@tmp', None):
            for rescore in (False, True):
                for flist in ('ok', 'missing', 'bad-table'):
                    yield dict(calib=calib, resolve=resolve, rescore=rescore, flist=flist, extra=[])


@st.composite
def window_case(draw):
    # unrelated variables: arbitrary ones, and ones whose names sit next to the touched variables (what a helper might pick for a stash)
    names = st.one_of(st.from_regex(r'VK_[A-Z]{1,6}', fullmatch=True), st.sampled_from(SIBLINGS))
    extra = [[k, draw(st.text(alphabet='abc/._-019', max_size=8))] for k in draw(st.lists(names, max_size=3, unique=True))]
    return dict(calib=draw(st.sampled_from(['/calib/dir', '/data/calib ', '', '/x y/z', None, ' /calib/dir', ' ', '\t/calib\n', '~', '~/photo/calib', '$HOME/calib', 'relative/dir'])), resolve=draw(st.sampled_from(['@tmp', '/nonexistent', None])),
                rescore=draw(st.booleans()), flist=draw(st.sampled_from(['ok', 'ok', 'missing', 'bad-table'])), extra=extra)


def window_classify(case):
    return ['PHOTO_CALIB:' + ('set' if case['calib'] is not None else 'unset'), 'PHOTO_RESOLVE:' + ('set' if case['resolve'] is not None else 'unset'),
            'rescore' if case['rescore'] else 'update', 'flist:' + case['flist']]


# ------------------------------------------------------------------ template_input
SIBLINGS = ['PHOTO_CALIB_SAVE', 'PHOTO_CALIB_ORIG', 'OLD_PHOTO_CALIB', '_PHOTO_CALIB', 'PHOTO_CALIB_', 'RUN2D_SAVE', 'RUN1D_SAVE', 'ORIG_RUN2D', 'OLD_RUN1D',
            'RUN2D_ORIG', '_RUN2D', 'RUN3D', 'PHOTO_REDUX', 'PHOTO_SKY']
PAR_EXTRA = ['boss_spectro_redux', 'spectro_redux', 'photo_calib', 'spectro_match', 'topdir', 'idlspec2d_dir', 'comment']
PAR_KEYS = ['object', 'method', 'aesthetics', 'run2d', 'run1d', 'wavemin', 'wavemax', 'snmax', 'niter', 'nkeep', 'minuse']


def write_par(fn, case):
    r2, r1 = (C16.RUN2D, C16.RUN1D) if case.get('real_read') else ('v9_9_9', 'v8_8_8')
    if case.get('legacy_run2d'):
        # round 11: an SDSS-I/II reduction name (a plain integer): the reading stage then looks for $SPECTRO_REDUX instead of
        # $BOSS_SPECTRO_REDUX - which is not set here, so the run fails in the reading stage (or wherever a fault is injected before)
        r2 = case['legacy_run2d']
    vals = dict(object=case['object'], method=case['method'], aesthetics='mean', run2d=r2, run1d=r1, wavemin='3600', wavemax='3700',
                snmax='100', niter='2', nkeep='4', minuse='3' if case['variant'] == 'low-usemask' else '1')
    if case['variant'] == 'missing-keyword':
        vals.pop(case['which'])
    if case['variant'] == 'non-numeric':
        vals[case['which'] if case['which'] in ('wavemin', 'wavemax', 'snmax', 'niter', 'nkeep', 'minuse') else 'niter'] = 'abc'
    lines = ['%s %s' % (k, vals[k]) for k in PAR_KEYS if k in vals]
    # further keyword/value pairs the file may carry (inert for template_input; some are spelled like environment variables)
    lines += ['%s %s' % (k, v) for k, v in case.get('parextra', [])]
    if case['method'] == 'hmf' and case['variant'] != 'missing-hmf-keys':
        lines += ['epsilon 0.1', 'nonnegative 0']
    if case['variant'] != 'missing-table':
        if case['object'] == 'star':
            lines += ['typedef struct { int plate; int mjd; int fiberid; double cz; } EIGENOBJ;', 'EIGENOBJ 300 55100 1 10.0', 'EIGENOBJ 300 55100 2 20.0',
                      'EIGENOBJ 301 55300 3 0.0']
        else:
            lines += ['typedef struct { int plate; int mjd; int fiberid; double zfit; } EIGENOBJ;', 'EIGENOBJ 300 55100 1 0.1', 'EIGENOBJ 300 55100 2 0.2',
                      'EIGENOBJ 301 55300 3 0.0']
    with open(fn, 'w') as f:
        f.write('\n'.join(lines) + '\n')


def template_body(case):
    import matplotlib
    matplotlib.use('Agg')
    import pydl.pydlspec2d.spec1d as M
    import pydl.pydlutils.yanny as YM
    import pydl.goddard.astro as GA
    import pydl.pydlutils.math as PM
    import pydl.pydlutils.image as PI
    from pydl.pydlspec2d import Pydlspec2dException
    from astropy.io import fits
    inj = Injected(Pydlspec2dException)
    nobj, npix = 3, 30
    state = {'RUN2D': case['run2d'], 'RUN1D': case['run1d']}
    with tmpdir() as d:
        set_env(state, case['extra'])
        par = os.path.join(d, 'in.par')
        if case['variant'] != 'unreadable-file':
            write_par(par, case)
        dump = os.path.join(d, 'dump.pkl')
        real_dump = _pickle.dump

        def reset_files():
            # every run of a scenario starts from the same file-system state
            if os.path.exists(dump):
                os.remove(dump)
            if case['dump_exists']:
                with open(dump, 'wb') as f:
                    real_dump({'newflux': np.ones((nobj, 40)), 'newivar': np.ones((nobj, 40)), 'newloglam': 3.55 + 1e-4 * np.arange(40)}, f)

        def f_readspec(*a, **kw):
            return {'flux': np.ones((nobj, npix)), 'invvar': np.ones((nobj, npix)), 'andmask': np.zeros((nobj, npix), 'i4'), 'ormask': np.zeros((nobj, npix), 'i4'),
                    'loglam': np.tile(3.55 + 1e-4 * np.arange(npix), (nobj, 1)), 'plugmap': {'FIBERID': np.array([1, 2, 3])}}

        def f_pre(flux, ivar, loglam=None, zfit=None, newloglam=None, aesthetics='mean', verbose=False):
            return (np.ones((nobj, len(newloglam))), np.ones((nobj, len(newloglam))), newloglam)

        def f_pca(nf, ni, **kw):
            m = nf.shape[1]
            use = np.full(m, 3)
            use[:3] = 1
            return {'flux': np.ones((4, m), 'f'), 'eigenval': np.ones(4), 'acoeff': np.ones((nobj, 4)), 'usemask': use, 'outmask': np.ones(nf.shape, bool)}

        class FakeHMF(object):
            def __init__(self, nf, ni, **kw):
                inj.hit('HMF()')
                self.m = nf.shape[1]

            def solve(self):
                inj.hit('HMF.solve')
                return {'flux': np.ones((4, self.m)), 'acoeff': np.ones((nobj, 4))}

        def f_qso(metadata, nf, ni, verbose=False):
            return f_pca(nf, ni)

        def f_star(metadata, nl, nf, ni, slist, outfile, verbose=False):
            out = f_pca(nf, ni)
            out['namearr'] = ['A', 'B', 'C', 'D']
            return out

        class FakeFig(object):
            def savefig(self, *a, **k):
                inj.hit('fig.savefig')

        class FakeAx(object):
            def __getattr__(self, n):
                return lambda *a, **k: None

        class FakePlt(object):
            def subplots(self, *a, **k):
                inj.hit('plt.subplots')
                return FakeFig(), FakeAx()

            def close(self, *a, **k):
                inj.hit('plt.close')

        def f_open(*a, **k):
            inj.hit('open')
            return open(*a, **k)

        def f_writeto(self, *a, **k):
            inj.hit('HDUList.writeto')

        real_init = YM.yanny.__init__

        def f_yanny_init(self, *a, **k):
            inj.hit('yanny(read parameter file)')
            return real_init(self, *a, **k)

        real_read = bool(case.get('real_read'))
        if real_read:
            # the reading stage runs for real on a small synthetic survey tree (spPlate + spZbest, no photoPlate file)
            top = os.path.join(d, 'redux')
            os.makedirs(top)
            C16.write_tree(top, dict(conv='vectors', config='env', photo=False,
                                     obs=[dict(plate=300, mjd=55100, nf=4, npix=npix, c0=3.55, c1=1e-4), dict(plate=301, mjd=55300, nf=4, npix=npix, c0=3.55, c1=1e-4)]))
            os.environ['BOSS_SPECTRO_REDUX'] = os.path.join(top, 'boss')
        class QuietLog(object):
            # verbose=True switches the package logger to DEBUG; the messages themselves are of no interest here
            def __getattr__(self, n):
                return lambda *a, **k: None

        patches = dict(log=QuietLog(), readspec=inj.wrap('readspec', M.readspec if real_read else f_readspec), skymask=inj.wrap('skymask', lambda iv, a, o, ngrow=2: iv.copy()),
                       wavevector=inj.wrap('wavevector', M.wavevector), preprocess_spectra=inj.wrap('preprocess_spectra', f_pre),
                       pca_solve=inj.wrap('pca_solve', f_pca), HMF=FakeHMF, template_qso=inj.wrap('template_qso', f_qso),
                       template_star=inj.wrap('template_star', f_star), plot_eig=inj.wrap('plot_eig', lambda *a, **k: None), plt=FakePlt(), os=OsProxy(inj))

        def runner():
            reset_files()
            M.open = f_open
            try:
                with mock.patch.multiple(M, **patches), \
                        mock.patch.object(YM.yanny, '__init__', f_yanny_init), \
                        mock.patch.object(GA, 'get_juldate', inj.wrap('get_juldate', GA.get_juldate)), \
                        mock.patch.object(PM, 'djs_median', inj.wrap('djs_median', PM.djs_median)), \
                        mock.patch.object(PI, 'djs_maskinterp', inj.wrap('djs_maskinterp', PI.djs_maskinterp)), \
                        mock.patch.object(_pickle, 'load', inj.wrap('pickle.load', _pickle.load)), \
                        mock.patch.object(_pickle, 'dump', inj.wrap('pickle.dump', lambda obj, f: None)), \
                        mock.patch.object(fits.HDUList, 'writeto', f_writeto):
                    try:
                        cwd = os.getcwd()
                        os.chdir(d)
                        try:
                            M.template_input(par, dump, flux=case['flux'], verbose=bool(case.get('verbose')))
                        finally:
                            os.chdir(cwd)
                        return 'ok'
                    except (Exception, Abort) as e:  # noqa
                        return '%s: %s' % (type(e).__name__, str(e)[:60])
            finally:
                del M.open
        if case.get('allcalls'):
            status, n, nf, nnt = enumerate_call_faults(runner, CallMonitor([M], Pydlspec2dException), dict(case), ('RUN2D', 'RUN1D'), ALLCALL_EXC[:2],
                                                       stride=case.get('stride', 1), offset=case.get('offset', 0))
        else:
            status, n, nf, nnt = enumerate_faults(runner, inj, dict(case), ('RUN2D', 'RUN1D'), state, excs=EXC[:1] if real_read else None)
    note_label('clean:' + status.split(':')[0])
    note_label('fault-points:%d0s' % (n // 10))
    if nnt:
        note_label('faults-after-modification')


def template_grid(tier):
    for run2d in ('orig2d', None):
        for run1d in ('orig1d', None):
            for obj, method in (('gal', 'pca'), ('gal', 'hmf'), ('qso', 'pca'), ('star', 'pca')):
                for variant in ('ok', 'missing-hmf-keys', 'low-usemask', 'missing-table', 'unreadable-file'):
                    if variant == 'missing-hmf-keys' and method != 'hmf':
                        continue
                    yield dict(run2d=run2d, run1d=run1d, object=obj, method=method, variant=variant, which='niter', flux=False, dump_exists=False, extra=[])
    for run2d in ('orig2d', None):
        for run1d in ('orig1d', None):
            yield dict(run2d=run2d, run1d=run1d, object='gal', method='pca', variant='ok', which='niter', flux=False, dump_exists=False, extra=[], verbose=True)
    # the real reading stage, with and without the variables it consults
    for extra in ([], [['SPECTRO_MATCH', '/nonexistent/match'], ['PHOTO_RESOLVE', '/nonexistent/resolve']]):
        yield dict(run2d=None, run1d='orig1d', object='gal', method='pca', variant='ok', which='niter', flux=False, dump_exists=False, extra=extra, real_read=True)
    yield dict(run2d=None, run1d='orig1d', object='gal', method='pca', variant='ok', which='niter', flux=False, dump_exists=False, extra=[], real_read=True, legacy_run2d='26')
    yield dict(run2d='orig2d', run1d=None, object='gal', method='pca', variant='ok', which='niter', flux=False, dump_exists=False, extra=[['SPECTRO_MATCH', '/nonexistent/match']], real_read=True, legacy_run2d='103')


def template_allcalls_grid(tier):
    n_yield = 0
    for c in template_grid(tier):
        if c.get('real_read'):
            continue
        if tier == 'quick':
            # quick tier: every object/method with both variables set and both unset, the mixed states for one of them,
            # the parameter-file variants for one initial state
            mixed = (c['run2d'] is None) != (c['run1d'] is None)
            if c['variant'] == 'ok' and mixed and (c['object'], c['method']) != ('gal', 'pca'):
                continue
            if c['variant'] != 'ok' and not (c['run2d'] == 'orig2d' and c['run1d'] is None and c['object'] == 'gal'):
                continue
        c['allcalls'] = True
        if tier == 'quick':
            # every third call event per scenario, the phase changing from scenario to scenario (scenarios with the same object and
            # method run the same call sequence, so together they cover it); the thorough tier faults every event of every scenario
            n_yield += 1
            c['stride'], c['offset'] = 3, n_yield
        yield c
    for flux, dump in ((True, False), (False, True), (True, True)):
        yield dict(run2d='orig2d', run1d=None, object='gal', method='pca', variant='ok', which='niter', flux=flux, dump_exists=dump, extra=[], allcalls=True)
    yield dict(run2d=None, run1d='orig1d', object='qso', method='pca', variant='ok', which='niter', flux=True, dump_exists=False, extra=[], allcalls=True, verbose=True)


@st.composite
def template_case(draw):
    # unrelated variables: arbitrary ones, and ones whose names sit next to the touched variables (what a helper might pick for a stash)
    names = st.one_of(st.from_regex(r'VK_[A-Z]{1,6}', fullmatch=True), st.sampled_from(SIBLINGS))
    extra = [[k, draw(st.text(alphabet='abc/._-019', max_size=8))] for k in draw(st.lists(names, max_size=3, unique=True))]
    obj = draw(st.sampled_from(['gal', 'qso', 'star', 'gal']))
    return dict(run2d=draw(st.sampled_from(['orig2d', None, 'v9_9_9', ''])), run1d=draw(st.sampled_from([None, 'orig1d', 'v8_8_8'])), object=obj,
                method=draw(st.sampled_from(['pca', 'hmf', 'bogus'])),
                variant=draw(st.sampled_from(['ok', 'ok', 'missing-keyword', 'non-numeric', 'missing-hmf-keys', 'missing-table', 'unreadable-file', 'low-usemask'])),
                which=draw(st.sampled_from(PAR_KEYS)), flux=draw(st.booleans()), dump_exists=draw(st.booleans()), extra=extra,
                parextra=[[k, draw(st.sampled_from(['/data/redux', 'v1_2_3', 'x']))] for k in draw(st.lists(st.sampled_from(PAR_EXTRA), max_size=2, unique=True))],
                real_read=draw(st.integers(0, 9)) == 0, verbose=draw(st.booleans()), legacy_run2d=draw(st.sampled_from([None, None, '26', '104'])))


def template_classify(case):
    return (['verbose'] if case.get('verbose') else []) + (['real-readspec'] if case.get('real_read') else ['stub-readspec']) + (['legacy-run2d'] if case.get('legacy_run2d') else []) + (['par-extra-keywords'] if case.get('parextra') else []) + ['RUN2D:' + ('set' if case['run2d'] is not None else 'unset'), 'RUN1D:' + ('set' if case['run1d'] is not None else 'unset'),
            'obj:' + case['object'], 'method:' + case['method'], 'variant:' + case['variant'], 'flux-plots' if case['flux'] else 'no-flux-plots',
            'dump-exists' if case['dump_exists'] else 'no-dump']


def nontrivial(case, labels):
    return 'faults-after-modification' in labels


SUBCHECKS = [
    SubCheck('window_score_grid', window_body, kind='exhaustive', cases=window_grid, classify=window_classify, nontrivial=nontrivial, shards=(4, 8), floor=0.0,
             doc='all 24 combinations of PHOTO_CALIB/PHOTO_RESOLVE set-unset x rescore x FLIST state; every fault point x 6 exception classes'),
    SubCheck('window_score_generated', window_body, strategy=window_case, classify=window_classify, nontrivial=nontrivial, quick=300, thorough=4000, shards=(8, 16), floor=0.0,
             doc='generated scenarios with unrelated environment variables and odd values'),
    SubCheck('template_input_grid', template_body, kind='exhaustive', cases=template_grid, classify=template_classify, nontrivial=nontrivial, shards=(16, 16), floor=0.0,
             doc='RUN2D/RUN1D set-unset x object/method x parameter-file variants; every fault point x 6 exception classes'),
    SubCheck('window_score_allcalls', window_body, kind='exhaustive', cases=window_allcalls_grid, classify=window_classify, nontrivial=nontrivial, shards=(4, 8), floor=0.0,
             doc='fault points = every call instruction executed by the code of pydl/photoop/window.py itself (sys.monitoring), not a list of named collaborators'),
    SubCheck('template_input_allcalls', template_body, kind='exhaustive', cases=template_allcalls_grid, classify=template_classify, nontrivial=nontrivial, shards=(16, 16), floor=0.0,
             doc='fault points = every call instruction executed by the code of pydl/pydlspec2d/spec1d.py itself during template_input (sys.monitoring)'),
    SubCheck('template_input_generated', template_body, strategy=template_case, classify=template_classify, nontrivial=nontrivial, quick=160, thorough=2400, shards=(16, 16), floor=0.0,
             doc='generated scenarios: unrelated variables, malformed parameter files, plots, existing dump file'),
]
