"""C13 -- trace sets: bases are the textbook polynomials and fit/evaluate are consistent."""
import math

import numpy as np
from hypothesis import strategies as st
from numpy.polynomial import legendre as NL, chebyshev as NC

from vk import SubCheck, Violation, call, judge, check, note_label

PROPERTY = 'C13'
LEVEL = 'exploration'
RULE = ('three Hypothesis sub-checks.  bases: abscissae in [-1,1] (arrays of 1-60 values, float32/float64, Python/NumPy scalars, end points and '
        '0), orders 1-12, flegendre/fchebyshev/fpoly/fchebyshev_split vs numpy.polynomial and x**k.  func_fit: 8-80 points, ncoeff 1-8, all '
        'function names, invvar with random zeros (>= ncoeff+2 good points), ia masks with 0..ncoeff (all) fixed coefficients, a FULL inputans '
        'vector (non-zero also at free slots), optional inputfunc; oracle numpy.linalg.lstsq on the weighted, fixed-part-subtracted system; '
        'zero-weight invariance; exact basis combinations recovered.  trace sets: 1-5 traces x 10-80 pixels, per-trace abscissae that share '
        'end points but differ in the interior, exact basis combinations or noisy data, ncoeff 2-6, optional xmin/xmax, optional jump: '
        'traceset2xy(xy2traceset(x,y),x) == yfit for every trace, == the data for exact combinations, ignore_jump differs when the jump '
        'matters, default grid spans xmin..xmax in unit steps.  Non-trivial = ncoeff >= 3 with a zero weight and (fits) a fixed parameter '
        'or (trace sets) >= 2 traces with a jump.')
RULE += '  Also: all coefficients fixed, python-int scalar abscissae, xmin/xmax changed after a first evaluation.'
ASSUMPTIONS = ['design matrices have condition number < 1e6 (decided on the reference side; otherwise only shapes/finite-ness are asserted)',
               'at least max(ncoeff, 2) positively weighted points (exactly ncoeff is generated on purpose; a single good point is the constant special case inherited from IDL)',
               'basis tolerance 1e-10 (1+k^2) for float64 and 3e-5 (1+k^2) for float32 input',
               'fit tolerance 1e-7 relative to the coefficient scale (normal equations, cond < 1e6 -> asserted at 1e-12*cond^2 + 1e-9)']

uf = st.floats(-1.0, 1.0, allow_nan=False)


def ref_basis(name, x, m):
    x = np.asarray(x, dtype='f8')
    if name in ('legendre', 'flegendre'):
        return np.array([NL.legval(x, [0] * k + [1]) for k in range(m)])
    if name in ('chebyshev', 'fchebyshev'):
        return np.array([NC.chebval(x, [0] * k + [1]) for k in range(m)])
    if name in ('poly', 'fpoly'):
        return np.array([x ** k for k in range(m)])
    # chebyshev_split: [x>=0, T0, T1, T2, ...]
    rows = [(x >= 0).astype('f8')]
    for k in range(m - 1):
        rows.append(NC.chebval(x, [0] * k + [1]))
    return np.array(rows)


# ------------------------------------------------------------------ bases
@st.composite
def basis_case(draw):
    form = draw(st.sampled_from(['f8', 'f4', 'f8', 'pyfloat', 'npscalar', 'pyint', 'i8', 'npint']))
    n = 1 if form in ('pyfloat', 'npscalar', 'pyint', 'npint') else draw(st.integers(1, 60))
    x = [draw(st.one_of(st.sampled_from([-1.0, 1.0, 0.0, 0.5, -0.5]), uf)) for _ in range(n)]
    return dict(form=form, x=x, m=draw(st.sampled_from([5, 8, 12, 3, 10, 2, 7, 4, 11, 6, 9, 1])), fn=draw(st.sampled_from(['legendre', 'chebyshev', 'poly', 'chebyshev_split'])))


def basis_body(case):
    from pydl.goddard.math import flegendre
    from pydl.pydlutils.trace import fchebyshev, fpoly, fchebyshev_split
    f = dict(legendre=flegendre, chebyshev=fchebyshev, poly=fpoly, chebyshev_split=fchebyshev_split)[case['fn']]
    m = case['m']
    if case['fn'] == 'chebyshev_split' and m < 2:
        m = 2
    form = case['form']
    if form == 'pyint':
        arg = int(round(case['x'][0]))          # the scalars 0, 1, -1 as plain Python ints
    elif form == 'npint':
        arg = np.int64(round(case['x'][0]))
    elif form == 'i8':
        arg = np.round(np.array(case['x'])).astype('i8')       # the abscissae -1, 0, 1 held in an integer array
    elif form == 'pyfloat':
        arg = float(case['x'][0])
    elif form == 'npscalar':
        arg = np.float64(case['x'][0])
    else:
        arg = np.array(case['x'], dtype=form)
    got = call(f, arg, m)
    xs = np.atleast_1d(np.asarray(arg, dtype='f8'))
    want = ref_basis(case['fn'], xs, m)
    with judge('basis'):
        got = np.asarray(got)
        check(got.shape == (m, len(xs)), 'basis:shape', lambda: dict(got=got.shape, want=(m, len(xs))))
        tol = 3e-5 if form == 'f4' else 1e-10
        for k in range(m):
            check(bool(np.all(np.abs(got[k].astype('f8') - want[k]) <= tol * (1 + k * k))), 'basis:not-the-textbook-polynomial:' + case['fn'],
                  lambda: dict(order=k, x=xs[np.abs(got[k].astype('f8') - want[k]).argmax()], got=float(got[k][np.abs(got[k].astype('f8') - want[k]).argmax()])))


# ------------------------------------------------------------------ func_fit
@st.composite
def fit_case(draw):
    n = draw(st.integers(8, 80))
    nc = draw(st.sampled_from([4, 3, 5, 2, 6, 8, 1, 7]))
    n = max(n, nc + 1)
    fn = draw(st.sampled_from(['legendre', 'chebyshev', 'poly', 'chebyshev_split', 'flegendre', 'fchebyshev', 'fpoly']))
    if 'split' in fn and nc < 2:
        nc = 2
    x = sorted(draw(uf) for _ in range(n))
    x = [x[i] + 1e-6 * i for i in range(n)]
    x = [v / max(1.0, abs(x[-1]), abs(x[0])) for v in x]
    if draw(st.booleans()):
        x = list(draw(st.permutations(x)))
    # "enough good points" = at least ncoeff of them; exactly ncoeff (an interpolating fit) is drawn on purpose
    nz = draw(st.sampled_from([n - nc, n - nc - 1, 0, draw(st.integers(0, max(0, n - nc)))]))
    nz = max(0, min(nz, n - 2))      # a single good point is func_fit's constant special case (inherited from IDL), not a fit
    zeros = draw(st.lists(st.integers(0, n - 1), min_size=nz, max_size=nz, unique=True)) if nz else []
    use_ia = draw(st.sampled_from([True, True, False]))
    nfix = draw(st.one_of(st.integers(0, nc), st.integers(0, nc - 1), st.just(nc))) if use_ia else 0
    fixed = draw(st.lists(st.integers(0, nc - 1), min_size=nfix, max_size=nfix, unique=True))
    return dict(n=n, nc=nc, fn=fn, x=x, zeros=zeros, use_ia=use_ia, fixed=fixed, inputans=[2 * draw(uf) for _ in range(nc)],
                truth=[2 * draw(uf) for _ in range(nc)], ykind=draw(st.sampled_from(['exact', 'noisy', 'noisy'])),
                noise=[draw(uf) for _ in range(8)], inputfunc=draw(st.sampled_from([False, False, True])), wvary=draw(st.booleans()),
                xform=draw(st.sampled_from(['f8', 'f8', 'f8', '>f8', 'f4', 'i8', 'f4-y-f4'])),
                wscale=draw(st.sampled_from([1.0, 1.0, 1.0, 1e-70, 1e-30, 1e30])))


def fit_body(case):
    from pydl.pydlutils.trace import func_fit
    n, nc, fn = case['n'], case['nc'], case['fn']
    x = np.array(case['x'], dtype='f8')
    # the abscissae as the caller holds them (D46): byte-swapped, single precision next to double-precision values, whole numbers in an
    # integer array; the reference works on the same numbers in float64
    xform = case.get('xform', 'f8')
    if xform == 'i8':
        xarg = np.round(3 * x).astype('i8')
    elif xform.startswith('f4'):
        xarg = x.astype('f4')
    else:
        xarg = x.astype(xform)
    x = xarg.astype('f8')
    w = (0.5 + 1.5 * np.abs(np.sin(np.arange(n) * 1.3))) if case['wvary'] else np.ones(n)
    w[case['zeros']] = 0.0
    # inverse variances in the units of the data (fluxes of 1e-17 have weights of 1e34, ...): a common factor does not change the fit
    w = w * case.get('wscale', 1.0)
    if case.get('wscale', 1.0) != 1.0:
        note_label('weights-rescaled')
    B = ref_basis(fn.lstrip('f') if fn.startswith('f') and fn != 'fpoly' else ('poly' if fn == 'fpoly' else fn), x, nc).T   # (n, nc)
    ifn = None
    if case['inputfunc']:
        ifn = 1.0 + 0.5 * np.cos(3 * x)
        B = B * ifn[:, None]
    ia = np.ones(nc, dtype=bool)
    ia[case['fixed']] = False
    ans = np.array(case['inputans'], dtype='f8')
    truth = np.array(case['truth'], dtype='f8')
    if case['use_ia']:
        truth[~ia] = ans[~ia]
    y = B.dot(truth)
    if case['ykind'] == 'noisy':
        y = y + 0.3 * np.array([case['noise'][(3 * i) % 8] * math.cos(i) for i in range(n)])
    kw = dict(invvar=w.copy(), function_name=fn)
    if case['use_ia']:
        kw.update(ia=ia.copy(), inputans=ans.copy())
    if ifn is not None:
        kw['inputfunc'] = ifn.copy()
    sw = np.sqrt(w)
    free = ia if case['use_ia'] else np.ones(nc, dtype=bool)
    ysub = y - B[:, ~free].dot(ans[~free]) if case['use_ia'] else y
    Aw = B[:, free] * sw[:, None]
    cond = np.linalg.cond(Aw) if free.any() else 1.0
    if not cond < 1e6:
        # (numerically) rank-deficient system: outside "all fitting problems with enough good points"; a LinAlgError is a legitimate answer
        note_label('ill-conditioned-skipped')
        try:
            call(func_fit, xarg.copy(), y.copy(), nc, allowed=(np.linalg.LinAlgError,), **kw)
        except np.linalg.LinAlgError:
            pass
        return
    if xform.startswith('f4'):
        # single-precision abscissae (the bases are evaluated in the precision of x), with double- or single-precision values: the call
        # must work (D46: a leftover dtype assertion) and only the accuracy single precision allows is asked for
        res, yfit = call(func_fit, xarg.copy(), y.astype('f4') if xform == 'f4-y-f4' else y.copy(), nc, **kw)
        with judge('func_fit-f4'):
            ref = np.zeros(nc)
            if free.any():
                ref[free] = np.linalg.lstsq(Aw, ysub * sw, rcond=None)[0]
            ref[~free] = ans[~free]
            check(np.shape(res) == (nc,) and bool(np.all(np.abs(np.asarray(res, dtype='f8') - ref) <= 1e-5 * cond ** 2 * max(1.0, np.abs(ref).max()) + 1e-3)),
                  'func_fit:single-precision-fit-far-off', lambda: dict(got=np.asarray(res).tolist(), want=ref.tolist(), cond=float(cond)))
        note_label('xform:' + xform)
        return
    note_label('xform:' + xform)
    res, yfit = call(func_fit, xarg.copy(), y.copy(), nc, **kw)
    with judge('func_fit'):
        res = np.asarray(res, dtype='f8')
        yfit = np.asarray(yfit, dtype='f8')
        check(res.shape == (nc,) and yfit.shape == (n,), 'func_fit:shapes', lambda: dict(res=res.shape, yfit=yfit.shape))
        check(bool(np.all(np.isfinite(res))), 'func_fit:non-finite')
        if case['use_ia']:
            check(bool(np.array_equal(res[~ia], ans[~ia])), 'func_fit:fixed-coefficient-changed', lambda: dict(got=res[~ia].tolist(), want=ans[~ia].tolist()))
        if cond < 1e6:
            note_label('well-conditioned')
            ref = np.zeros(nc)
            if free.any():
                ref[free] = np.linalg.lstsq(Aw, ysub * sw, rcond=None)[0]
            ref[~free] = ans[~free]
            scale = max(1.0, np.abs(ref).max())
            tol = (1e-9 + 1e-12 * cond ** 2) * scale
            check(bool(np.all(np.abs(res - ref) <= tol)), 'func_fit:not-the-weighted-least-squares-solution',
                  lambda: dict(got=res.tolist(), want=ref.tolist(), cond=float(cond), fn=fn, fixed=case['fixed'], inputans=case['inputans']))
            if case['ykind'] == 'exact':
                check(bool(np.all(np.abs(res - truth) <= 10 * tol)), 'func_fit:exact-combination-not-recovered', lambda: dict(got=res.tolist(), want=truth.tolist()))
            check(bool(np.all(np.abs(yfit - B.dot(res)) <= 1e-9 * scale * max(1.0, np.abs(B).max()))), 'func_fit:yfit-not-basis-times-coefficients')
    # zero-weight points have no influence
    if case['zeros'] and cond < 1e6:
        y2 = y.copy()
        y2[case['zeros']] += 13.0
        res2, _ = call(func_fit, xarg.copy(), y2, nc, **{k: (v.copy() if hasattr(v, 'copy') else v) for k, v in kw.items()})
        with judge('zero-weight'):
            check(bool(np.all(np.abs(np.asarray(res2) - res) <= 1e-9 * max(1.0, np.abs(res).max()))), 'func_fit:zero-weight-point-has-influence')


def fit_classify(case):
    out = ['fn:' + case['fn'], 'nc:%d' % case['nc'], 'y:' + case['ykind']]
    if case['zeros']:
        out.append('zero-weights')
    if case['n'] - len(case['zeros']) == case['nc']:
        out.append('ngood==ncoeff')
    if case['use_ia'] and case['fixed']:
        out.append('fixed-params')
    if case['inputfunc']:
        out.append('inputfunc')
    return out


def fit_nontrivial(case, labels):
    return case['nc'] >= 3 and 'zero-weights' in labels and 'fixed-params' in labels and 'well-conditioned' in labels


# ------------------------------------------------------------------ trace sets
@st.composite
def tset_case(draw):
    ntr = draw(st.sampled_from([3, 2, 1, 5, 4]))
    nx = draw(st.integers(10, 80))
    nc = draw(st.sampled_from([3, 4, 2, 5, 6]))
    func = draw(st.sampled_from(['legendre', 'chebyshev', 'poly']))
    xkind = draw(st.sampled_from(['interior-differs', 'grid', 'jitter']))
    x0 = draw(st.sampled_from([0.0, 100.0, -20.0]))
    rows = []
    for t in range(ntr):
        if xkind == 'grid':
            row = [x0 + i for i in range(nx)]
        else:
            row = [x0 + i + (0.4 * draw(uf) if 0 < i < nx - 1 else 0.0) for i in range(nx)]
            if xkind == 'jitter':
                row[0] += 0.3 * draw(uf)
                row[-1] += 0.3 * draw(uf)
        rows.append(row)
    coeff = [[3 * draw(uf) for _ in range(nc)] for _ in range(ntr)]
    jump = draw(st.sampled_from([False, True, True]))
    jp = None
    if jump:
        lo = draw(st.sampled_from([x0 + nx * (0.3 + 0.1 * draw(uf)), x0, 0.0, x0 + 5.0, x0 - 3.0]))
        hi = lo + draw(st.sampled_from([1.0, 3.5, 10.0, 3.0]))
        jp = dict(xjumplo=lo, xjumphi=hi, xjumpval=draw(st.sampled_from([0.5, -1.25, 3.0, 0.0])))
    return dict(ntr=ntr, nx=nx, nc=nc, func=func, xkind=xkind, rows=rows, coeff=coeff, jump=jp, ykind=draw(st.sampled_from(['exact', 'noisy'])),
                xminmax=draw(st.sampled_from([None, None, 'wider', 'xmin-only', 'xmax-only'])), xedge=draw(st.sampled_from([2.0, 0.5, 2.25, -1.5])), rerange=draw(st.sampled_from([None, None, [2.0, 3.0], [0.0, 10.0]])), zeros=draw(st.lists(st.integers(0, ntr * nx - 1), max_size=5, unique=True)),
                inmask=draw(st.lists(st.integers(0, ntr * nx - 1), max_size=4, unique=True)) if draw(st.booleans()) else [], spoil=draw(st.booleans()),
                noise=[draw(uf) for _ in range(8)], xorder=draw(st.sampled_from(['asc', 'asc', 'desc', 'shuffled'])), xdtype=draw(st.sampled_from(['f8', 'f8', 'i8', 'i4', 'u1', 'i2', 'u2'])) if xkind == 'grid' else 'f8')


def tset_body(case):
    from pydl.pydlutils.trace import xy2traceset, traceset2xy, TraceSet
    ntr, nx, nc, func = case['ntr'], case['nx'], case['nc'], case['func']
    X = np.array(case['rows'], dtype='f8')
    # the positions of a trace need not be listed in ascending order
    if case.get('xorder') == 'desc':
        X = X[:, ::-1].copy()
    elif case.get('xorder') == 'shuffled':
        X = X[:, np.argsort((np.sin(np.arange(nx) * 12.9898) * 43758.5453) % 1.0)].copy()
    note_label('xorder:' + case.get('xorder', 'asc'))
    if case.get('xdtype') in ('u1', 'i2', 'u2'):
        # pixel numbers near the top of a narrow integer type (a detector 250 / 32 000 / 65 000 columns wide): their sum does not fit the type
        X = X + ({'u1': 250.0, 'i2': 32000.0, 'u2': 65000.0}[case['xdtype']] - X.max())
    kw = dict(ncoeff=nc, func=func, maxiter=0)
    xe = case.get('xedge', 2.0)        # limits on whole numbers or on pixel edges (x.5), whatever the type of the positions; -1.5: a baseline narrower than the
    # positions (some lie outside it, |normalised x| > 1): still the requested baseline
    if case['xminmax'] == 'wider':
        kw.update(xmin=float(X.min()) - xe, xmax=float(X.max()) + xe + 1.0)
    elif case['xminmax'] == 'xmin-only':       # each limit is a keyword of its own: the other one comes from the positions
        kw.update(xmin=float(X.min()) - xe)
    elif case['xminmax'] == 'xmax-only':
        kw.update(xmax=float(X.max()) + xe + 1.0)
    xmin = kw.get('xmin', X.min())
    xmax = kw.get('xmax', X.max())
    jp = case['jump']
    if jp:
        kw.update(jp)

    def xnorm(xv, use_jump):
        xn = xv
        if jp and use_jump:
            jf = np.clip((xv - jp['xjumplo']) / (jp['xjumphi'] - jp['xjumplo']), 0.0, 1.0)
            xn = xv + jf * jp['xjumpval']
        return 2.0 * (xn - 0.5 * (xmin + xmax)) / (xmax - xmin)
    C = np.array(case['coeff'], dtype='f8')
    Y = np.zeros_like(X)
    for t in range(ntr):
        Y[t] = ref_basis(func, xnorm(X[t], True), nc).T.dot(C[t])
    if case['ykind'] == 'noisy':
        Y = Y + 0.2 * np.array([[case['noise'][(i + 3 * t) % 8] * math.sin(i + t) for i in range(nx)] for t in range(ntr)])
    iv = np.ones_like(X)
    iv.ravel()[case['zeros']] = 0.0
    # whole-number positions as the caller may hold them: pixel indices in an integer array (D47), single precision
    xdt = case.get('xdtype', 'f8')
    if xdt[0] in 'iu' and (X.min() < np.iinfo(xdt).min or X.max() > np.iinfo(xdt).max):
        xdt = 'i8'            # (positions that do not fit the narrow type)
    Xarg = X.astype(xdt)
    note_label('xdtype:' + xdt)
    # round 11: points flagged bad through `inmask` (with a positive inverse variance) count as zero-weight points; the values at
    # zero-weight points of either kind may be anything (here: far off the curve) without influence on the fit
    Yin = Y.copy()
    if case.get('inmask'):
        im = np.ones(X.shape, dtype=bool)
        im.ravel()[case['inmask']] = False
        kw['inmask'] = im
        iv_eff = iv * im
        note_label('inmask-flags-weighted-points')
    else:
        iv_eff = iv
    if case.get('spoil') and (iv_eff == 0).any():
        Yin[iv_eff == 0] += 37.0 * (1.0 + np.abs(Y).max())
        note_label('zero-weight-values-far-off')
    tset = call(xy2traceset, Xarg.copy(), Yin.copy(), invvar=iv.copy(), **kw)
    iv = iv_eff
    with judge('traceset'):
        check(isinstance(tset, TraceSet), 'tset:type')
        coeff = np.asarray(tset.coeff, dtype='f8')
        check(coeff.shape == (ntr, nc), 'tset:coeff-shape', lambda: dict(got=coeff.shape))
        yfit = np.asarray(tset.yfit, dtype='f8')
        check(yfit.shape == X.shape, 'tset:yfit-shape')
    xo, yo = call(traceset2xy, tset, Xarg.copy())
    scale = max(1.0, np.abs(Y).max())
    with judge('roundtrip'):
        yo = np.asarray(yo, dtype='f8')
        check(yo.shape == X.shape and np.array_equal(np.asarray(xo), X), 'tset:xy-shape-or-x-changed')
        for t in range(ntr):
            check(bool(np.all(np.abs(yo[t] - yfit[t]) <= 1e-10 * scale)), 'tset:evaluate-differs-from-yfit',
                  lambda: dict(trace=t, maxdev=float(np.abs(yo[t] - yfit[t]).max()), jump=bool(jp), xkind=case['xkind']))
            # independent evaluation of the returned coefficients
            ref = ref_basis(func, xnorm(X[t], True), nc).T.dot(coeff[t])
            check(bool(np.all(np.abs(yo[t] - ref) <= 1e-9 * scale)), 'tset:evaluate-differs-from-textbook-basis',
                  lambda: dict(trace=t, maxdev=float(np.abs(yo[t] - ref).max()), jump=bool(jp)))
        if case['ykind'] == 'exact':
            conds = [np.linalg.cond(ref_basis(func, xnorm(X[t], True), nc).T * np.sqrt(iv[t])[:, None]) for t in range(ntr)]
            if max(conds) < 1e5:
                check(bool(np.all(np.abs(yfit - Y) <= 1e-7 * scale)), 'tset:exact-combination-not-recovered', lambda: dict(maxdev=float(np.abs(yfit - Y).max())))
                check(bool(np.all(np.abs(coeff - C) <= 1e-6 * max(1.0, np.abs(C).max()))), 'tset:coefficients-not-recovered', lambda: dict(maxdev=float(np.abs(coeff - C).max())))
    if jp:
        xi, yi = call(traceset2xy, tset, X.copy(), ignore_jump=True)
        with judge('ignore-jump'):
            ref = np.array([ref_basis(func, xnorm(X[t], False), nc).T.dot(coeff[t]) for t in range(ntr)])
            check(bool(np.all(np.abs(np.asarray(yi) - ref) <= 1e-9 * scale)), 'tset:ignore_jump-evaluation-wrong', lambda: dict(maxdev=float(np.abs(np.asarray(yi) - ref).max())))
            matters = jp['xjumpval'] != 0 and bool((X > jp['xjumplo']).any()) and bool(np.abs(ref - yo).max() > 1e-6 * scale)
            if matters:
                note_label('jump-matters')
    # the geometry is read from the object's attributes at evaluation time: after xmin / xmax are changed (e.g. a trace set
    # re-used for a detector with a different read-out window) evaluation and the default grid follow the new values
    if case.get('rerange'):
        tset.xmin = np.float64(xmin - case['rerange'][0])
        tset.xmax = np.float64(xmax + case['rerange'][1])
        xmin, xmax = float(tset.xmin), float(tset.xmax)
        xr, yr = call(traceset2xy, tset, X.copy())
        with judge('re-ranged'):
            refr = np.array([ref_basis(func, xnorm(X[t], True), nc).T.dot(coeff[t]) for t in range(ntr)])
            check(bool(np.all(np.abs(np.asarray(yr, dtype='f8') - refr) <= 1e-9 * max(scale, np.abs(refr).max()))), 'tset:evaluation-ignores-changed-xmin-xmax',
                  lambda: dict(maxdev=float(np.abs(np.asarray(yr, dtype='f8') - refr).max())))
    # default grid (asked for twice: whatever the caller does to the arrays of the first answer, the second is a fresh grid)
    x0_, y0_ = call(traceset2xy, tset)
    try:
        x0_ -= 7.5
        y0_ *= 0
    except (ValueError, TypeError):
        pass
    xd, yd = call(traceset2xy, tset)
    with judge('default-grid'):
        xd = np.asarray(xd, dtype='f8')
        n_expected = int(xmax - xmin + 1)
        check(xd.shape == (ntr, n_expected), 'tset:default-grid-shape', lambda: dict(got=xd.shape, want=(ntr, n_expected)))
        check(bool(np.all(xd[:, 0] == xmin)), 'tset:default-grid-does-not-start-at-xmin')
        check(bool(np.all(np.abs(np.diff(xd, axis=1) - 1.0) < 1e-12)), 'tset:default-grid-not-unit-steps')
        check(bool(np.all(xd[:, -1] <= xmax + 1e-9) and np.all(xd[:, -1] > xmax - 1.0 - 1e-9)), 'tset:default-grid-does-not-span-to-xmax')
        refd = np.array([ref_basis(func, xnorm(xd[t], True), nc).T.dot(coeff[t]) for t in range(ntr)])
        check(bool(np.all(np.abs(np.asarray(yd, dtype='f8') - refd) <= 1e-9 * max(scale, np.abs(refd).max()))), 'tset:default-grid-values-wrong')
    if jp:
        # round 11: the default grid evaluated without the jump
        xj, yj = call(traceset2xy, tset, ignore_jump=True)
        with judge('default-grid-ignore-jump'):
            xj = np.asarray(xj, dtype='f8')
            check(xj.shape == xd.shape and bool(np.array_equal(xj, xd)), 'tset:default-grid-changes-with-ignore_jump')
            refj = np.array([ref_basis(func, xnorm(xj[t], False), nc).T.dot(coeff[t]) for t in range(ntr)])
            check(bool(np.all(np.abs(np.asarray(yj, dtype='f8') - refj) <= 1e-9 * max(scale, np.abs(refj).max()))), 'tset:ignore_jump-not-honoured-on-the-default-grid',
                  lambda: dict(maxdev=float(np.abs(np.asarray(yj, dtype='f8') - refj).max())))


def tset_classify(case):
    out = ['func:' + case['func'], 'ntr:%d' % case['ntr'], 'nc:%d' % case['nc'], 'x:' + case['xkind'], 'y:' + case['ykind']]
    if case['jump']:
        out.append('jump')
    if case['zeros']:
        out.append('zero-weights')
    if case['xminmax']:
        out.append('explicit-xmin-xmax')
    return out


def tset_nontrivial(case, labels):
    return case['nc'] >= 3 and case['ntr'] >= 2 and 'jump' in labels and 'zero-weights' in labels


SUBCHECKS = [
    SubCheck('bases', basis_body, strategy=basis_case, classify=lambda c: ['fn:' + c['fn'], 'form:' + c['form'], 'm:%d' % c['m']],
             nontrivial=lambda c, l: c['m'] >= 3, quick=3000, thorough=100000, shards=(6, 16), doc='Legendre / Chebyshev / monomial / split-Chebyshev bases vs numpy.polynomial'),
    SubCheck('func_fit', fit_body, strategy=fit_case, classify=fit_classify, nontrivial=fit_nontrivial, quick=3000, thorough=150000, shards=(8, 16), floor=0.01,
             doc='weighted least squares with fixed parameters, inputans, inputfunc vs numpy.linalg.lstsq'),
    SubCheck('tracesets', tset_body, strategy=tset_case, classify=tset_classify, nontrivial=tset_nontrivial, quick=1500, thorough=60000, shards=(6, 16), floor=0.01,
             doc='xy2traceset / traceset2xy round trip per trace, jump handling, default grid'),
]
