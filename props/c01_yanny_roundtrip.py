"""C01 -- yanny: tables and header pairs written to a file read back unchanged."""
import os

import numpy as np
from hypothesis import strategies as st

from vk import SubCheck, Violation, call, judge, check
from vk.runner import tmpdir
from props import yannylib as Y

PROPERTY = 'C01'
LEVEL = 'exploration'
RULE = ('Hypothesis write requests: 1-3 tables (1-5 columns of i2/i4/i8/f4/f8/S<n>/enum, scalar or 1-D array, '
        '0-5 rows, cell values incl. integer extremes, +-0/inf/NaN/denormal/huge floats, strings over an alphabet with '
        'blank, tab, # ; { } quote-free punctuation), structure names distinct case-insensitively and often '
        'substrings of each other or equal to a column name, 0-4 header pairs; written with write_ndarray_to_yanny / '
        'write_table_yanny / Table.write(format=yanny) and compared (round-trip oracle) on the returned object and on a '
        'fresh read: names, column order, dtypes, row order, ints/strings equal, floats bit-identical (NaNs identified), '
        'header text.  Non-trivial = >=1 row and one of: string needing quotes, extreme integer, non-finite / denormal / '
        'huge float, array column, enum, >=2 tables, header pair, unicode column.  Distinct = distinct case hash.')
RULE += "  Also: header keywords that are the parser's own words (struct, enum, symbols), array columns of length 10/12, big-endian record arrays, comments as str/list."
RULE += ' Round 5: numeric columns sharing the name of an enum column of another table; form feed / vertical tab / FS / RS inside texts.'
ASSUMPTIONS = [
    'texts the format cannot express are not generated: double quote, leading {, } inside string-array elements, {{}}-like '
    'substring (the format notation for the empty string), backslash ending the last column or a header value, non-ASCII, NUL, '
    'line ends (CR, LF) inside strings - form feed, vertical tab and the FS/RS separators ARE generated; header values without #, newline, leading/trailing blanks',
    'header keywords are identifiers that differ case-insensitively from all structure names',
    'column names are identifiers other than the C type keywords of the format',
    'enum columns hold labels of their enum; the name of an enum column is not used by another string column of the file (the writer keys enums by column name; numeric columns may share it)',
]


def setup():
    from astropy.table import Table
    from astropy.io.registry import register_identifier, register_reader, register_writer
    from pydl.pydlutils.yanny import is_yanny, read_table_yanny, write_table_yanny
    register_identifier('yanny', Table, is_yanny, force=True)
    register_reader('yanny', Table, read_table_yanny, force=True)
    register_writer('yanny', Table, write_table_yanny, force=True)


@st.composite
def header(draw, names):
    taken = {n.upper() for n in names}
    keys = draw(st.lists(Y.keyword.filter(lambda k: k.upper() not in taken), max_size=4, unique_by=lambda k: k.upper()))
    return [[k, draw(Y.header_value())] for k in keys]


@st.composite
def ndarray_request(draw):
    nt = draw(st.sampled_from([1, 1, 2, 2, 3]))
    names = draw(Y.struct_names(nt))
    tables = [draw(Y.table_spec(n)) for n in names]
    # sometimes name a table like a column of another table
    if nt > 1 and draw(st.integers(0, 4)) == 0:
        cand = tables[1]['cols'][0]['name']
        if cand.upper() not in {n.upper() for n in names}:
            tables[0]['name'] = cand
    # sometimes two tables whose "table name + separator + column name" strings coincide although both parts differ
    # (SPEC.LINE_ID / SPEC_LINE.ID, SPEC.OBJID / SPECOBJ.ID), the two columns being of different shape (round 9)
    if nt > 1 and draw(st.integers(0, 5)) == 0:
        t0, t1 = tables[0], tables[1]
        sep = draw(st.sampled_from(['_', '_', '']))
        x = draw(st.from_regex(r'[A-Z]{1,3}', fullmatch=True))
        c0, c1 = t0['cols'][0], t1['cols'][0]
        new1 = t0['name'].upper() + sep + x
        newc = x + sep + c1['name']
        if (new1 not in {t['name'].upper() for t in tables} and newc not in [c['name'] for c in t0['cols']]
                and newc.lower() not in Y.RESERVED and new1.lower() not in Y.RESERVED):
            t1['name'] = new1
            c0['name'] = newc
            if bool(c0['alen']) == bool(c1['alen']) and c0['kind'] != 'E':
                c0['alen'] = 0 if c0['alen'] else 2
                for r in t0['rows']:
                    r[0] = draw(Y.cell_strategy(c0))
    Y.fix_enums(tables)
    # a numeric column in another table may carry the name of an enum column (e.g. `state` as label here, as a count there)
    for i, t in enumerate(tables):
        for c in t['cols']:
            if c['kind'] == 'E' and nt > 1 and draw(st.booleans()):
                other = tables[(i + 1) % nt]
                cand = [d for d in other['cols'] if d['kind'] in ('i2', 'i4', 'i8', 'f4', 'f8')]
                if cand and c['name'] not in [d['name'] for d in other['cols']]:
                    cand[0]['name'] = c['name']
    Y.fix_last_column(tables)
    hdr = draw(header([t['name'] for t in tables]))
    return dict(tables=tables, hdr=hdr, byteorder=draw(st.sampled_from(['<', '<', '>', 'q'])),
                comments=draw(st.sampled_from([None, None, 'a comment line', ['first comment', 'second # comment'], ['only one']])))


def ndarray_body(case):
    from pydl.pydlutils.yanny import yanny, write_ndarray_to_yanny
    tables, hdr = case['tables'], case['hdr']
    arrays = tuple(Y.build_recarray(t, case.get('byteorder', '<')) for t in tables)
    hdict = {k: v for k, v in hdr} or None
    extra = {} if case.get('comments') is None else dict(comments=case['comments'])
    with tmpdir() as d:
        fn = os.path.join(d, 'f.par')
        par = call(write_ndarray_to_yanny, fn, arrays, structnames=tuple(t['name'] for t in tables),
                   enums=Y.enums_dict(tables), hdr=hdict, **extra)
        back = call(yanny, fn)
        for label, obj in (('returned', par), ('reread', back)):
            with judge(label):
                check(list(obj.tables()) == [t['name'].upper() for t in tables], label + ':table-names',
                      lambda: dict(got=list(obj.tables()), want=[t['name'].upper() for t in tables]))
                for t in tables:
                    Y.compare_table(obj[t['name'].upper()], t, check, label)
                got = [(k, obj[k]) for k in obj.pairs()]
                want = [(k, Y.pair_text(v)) for k, v in hdr]
                check(got == want, label + ':pairs', lambda: dict(got=got, want=want))
        # the same file through the astropy Table reader, one table at a time: its rows, and the header pairs (only those) as meta
        from pydl.pydlutils.yanny import read_table_yanny
        for t in tables[:2]:
            if not t['rows']:
                continue
            tb = call(read_table_yanny, fn, tablename=t['name'])
            with judge('table-reader'):
                Y.compare_table(tb.as_array(), t, check, 'table-reader')
                got = [(k, tb.meta[k]) for k in tb.meta]
                want = [(k, Y.pair_text(v)) for k, v in hdr]
                check([k for k, v in got] == [k for k, v in want] and all(isinstance(v, str) and v == w for (k, v), (k2, w) in zip(got, want)), 'table-reader:meta',
                      lambda: dict(got=[(k, str(v)[:40]) for k, v in got], want=want, tables=[q['name'] for q in tables]))


def ndarray_classify(case):
    out = Y.classify_tables(case['tables'])
    if case['hdr']:
        out.append('has-header')
    if case.get('byteorder') == '>':
        out.append('big-endian-columns')
    if isinstance(case.get('comments'), list):
        out.append('comments-as-list')
    return out


def nontrivial(case, labels):
    tabs = case['tables'] if 'tables' in case else [case['table']]
    return any(t['rows'] for t in tabs) and bool(Y.NONTRIVIAL_LABELS & set(labels))


# ------------------------------------------------------------------ astropy Table entry points
@st.composite
def table_request(draw):
    name = draw(Y.ident)
    t = draw(Y.table_spec(name, kinds=('i2', 'i4', 'i8', 'f4', 'f8', 'S', 'U', 'U')))
    Y.fix_last_column([t])
    hdr = draw(header([name]))
    return dict(table=t, hdr=hdr, entry=draw(st.sampled_from(['functions', 'registry'])), byteorder=draw(st.sampled_from(['<', '<', '>'])))


def table_body(case):
    from astropy.table import Table
    from pydl.pydlutils.yanny import yanny, write_table_yanny, read_table_yanny
    t, hdr = case['table'], case['hdr']
    dt = Y.np_dtype(t['cols'], byteorder=case.get('byteorder', '<'))
    a = np.zeros(len(t['rows']), dtype=dt)
    for j, c in enumerate(t['cols']):
        if t['rows']:
            a[c['name']] = [Y.from_json_cell(c, r[j]) for r in t['rows']]
    tab = Table(a)
    for k, v in hdr:
        tab.meta[k] = v
    with tmpdir() as d:
        fn = os.path.join(d, 'f.par')
        if case['entry'] == 'functions':
            call(write_table_yanny, tab, fn, tablename=t['name'])
            back = call(read_table_yanny, fn, tablename=t['name'])
        else:
            call(tab.write, fn, format='yanny', tablename=t['name'], what='Table.write')
            back = call(Table.read, fn, format='yanny', tablename=t['name'], what='Table.read')
        with judge('table'):
            check(isinstance(back, Table), 'table:type', type(back).__name__)
            Y.compare_table(back.as_array(), t, check, 'table')
            got = [(k, back.meta[k]) for k in back.meta]
            want = [(k, Y.pair_text(v)) for k, v in hdr]
            check(got == want, 'table:meta', lambda: dict(got=got, want=want))
        par = call(yanny, fn)
        with judge('table-file'):
            check(list(par.tables()) == [t['name'].upper()], 'table:file-table-name', lambda: list(par.tables()))


def table_classify(case):
    out = Y.classify_tables([case['table']]) + ['entry:' + case['entry']]
    if case['hdr']:
        out.append('has-header')
    return out


# ------------------------------------------------------------------ unsupported dtypes
UNSUPPORTED = ['u1', 'u2', 'u4', 'u8', 'i1', 'b1', 'f2', 'c8', 'c16']


@st.composite
def refuse_request(draw):
    name = draw(Y.ident)
    t = draw(Y.table_spec(name, kinds=('i4', 'f8', 'S'), min_rows=1))
    Y.fix_last_column([t])
    return dict(table=t, bad=draw(st.sampled_from(UNSUPPORTED)), pos=draw(st.integers(0, len(t['cols']))),
                alen=draw(st.sampled_from([0, 0, 2])), entry=draw(st.sampled_from(['ndarray', 'table'])))


def refuse_body(case):
    from astropy.table import Table
    from pydl.pydlutils.yanny import yanny, write_ndarray_to_yanny, write_table_yanny
    t = case['table']
    good = Y.build_recarray(t)
    descr = [(c['name'], good.dtype[c['name']].base.str[1:], good.dtype[c['name']].shape) for c in t['cols']]
    descr = [(n, b, s) if s else (n, b) for n, b, s in descr]
    badcol = ('zz_bad', case['bad'], (case['alen'],)) if case['alen'] else ('zz_bad', case['bad'])
    descr.insert(case['pos'], badcol)
    a = np.zeros(len(good), dtype=descr)
    for c in t['cols']:
        a[c['name']] = good[c['name']]
    a['zz_bad'] = 1
    with tmpdir() as d:
        fn = os.path.join(d, 'f.par')
        try:
            if case['entry'] == 'ndarray':
                write_ndarray_to_yanny(fn, a, structnames=t['name'])
            else:
                write_table_yanny(Table(a), fn, tablename=t['name'])
        except Exception:
            # refused, as required; and nothing readable-but-wrong may be left behind
            if os.path.exists(fn):
                try:
                    par = yanny(fn)
                    rows = par.size(t['name'].upper()) if t['name'].upper() in par.tables() else 0
                except Exception:
                    rows = 0
                check(rows == 0, 'unsupported-dtype-left-a-file:' + case['bad'], dict(rows=rows))
            return
        raise Violation('unsupported-dtype-written:' + case['bad'], dict(dtype=case['bad'], file=open(fn).read()[-400:]))


def refuse_classify(case):
    return ['dtype:' + case['bad'], 'entry:' + case['entry'], 'array' if case['alen'] else 'scalar']


SUBCHECKS = [
    SubCheck('ndarray_roundtrip', ndarray_body, strategy=ndarray_request, classify=ndarray_classify, nontrivial=nontrivial,
             quick=1200, thorough=120000, shards=(6, 16),
             doc='write_ndarray_to_yanny: returned object and fresh yanny(filename) equal the request'),
    SubCheck('table_roundtrip', table_body, strategy=table_request, classify=table_classify, nontrivial=nontrivial,
             quick=600, thorough=50000, shards=(4, 16),
             doc='astropy Table through write_table_yanny/read_table_yanny and through the registered Table.write/Table.read'),
    SubCheck('unsupported_refused', refuse_body, strategy=refuse_request, classify=refuse_classify,
             quick=300, thorough=10000, shards=(1, 8),
             doc='unsigned / 8-bit / boolean / half / complex columns (scalar or array) are refused with an exception'),
]
