"""C10 -- iterfit is order-independent and its mask honours weights and rejection limits."""
import math

import numpy as np
from hypothesis import strategies as st

from vk import SubCheck, Violation, call, judge, check, note_label
from props import bslib

PROPERTY = 'C10'
LEVEL = 'exploration'
RULE = ('Hypothesis data sets: 40-200 unsorted abscissae (sometimes with repeated values), y = smooth signal + pseudo-Gaussian noise of known sigma, 0-4 injected '
        'outliers of 20-50 sigma, invvar = 1/sigma^2 with ~10 % zeros and occasionally negative values, order 2-4, nbkpts or bkspace '
        'giving 3-8 intervals, upper/lower in [3,6] drawn independently or exactly 0 (reject everything on that side), invvar given or omitted (documented default 1/variance; also with integer y), maxiter in {0,1,2,3,10}, a random permutation.  Oracles: '
        '(i) permuted input gives the same curve and the identically permuted mask; (ii) mask False wherever invvar <= 0; (iii) maxiter=0 '
        'curve == independent weighted lstsq on all positively weighted points; (iv) reference procedure fit -> reject beyond '
        '-lower/+upper sigma among good points -> refit (at most maxiter+1 fits) with an independent dense solver on the knots the '
        'object reports: returned mask and curve must equal the reference (so injected outliers that the procedure rejects end False).  '
        'Non-trivial = >=1 outlier, >=1 zero weight, non-identity permutation, maxiter >= 1, well supported.')
RULE += '  Also: repeated abscissae, exactly determined fits (one interval, nord or nord+1 good points), zero thresholds, integer y without weights.'
RULE += ' Round 10: sub-check gap_polynomial (zero-weight stretches 1.5-3 x order intervals wide; polynomial data of degree < order; validity predicate independent of the breakpoints kept).'
RULE += ' Round 5: sub-check exact_ties (order 1, integer data: residuals exactly on a limit); bkspace dividing the range exactly.'
ASSUMPTIONS = ['abscissae may repeat (up to 8 coinciding pairs); each point is judged on its own, so the order among equal x does not matter',
               'if any normalised residual comes within 1e-6 of a rejection limit during the reference run the case is accepted either way',
               'if a rejection pass leaves a knot interval without order+1 good points, or the design matrix has cond > 1e4, only (i) and (ii) are asserted',
               'curves are compared on a grid inside the breakpoint range; tolerance 1e-6 of the data scale']

uf = st.floats(-1.0, 1.0, allow_nan=False)


def setup():
    bslib.selfcheck()


@st.composite
def case_strategy(draw):
    if draw(st.integers(0, 24)) == 0:
        # the smallest well-posed problem: one breakpoint interval and exactly order (or order + 1) positively weighted points,
        # among a few points without weight - the fit is the polynomial through (or closest to) the good points
        nord = draw(st.sampled_from([4, 3, 2, 5]))
        # ... or fewer good points than the order (D50): nothing can be fitted, but the mask must still tell the weightless points apart
        ngood = max(2, nord + draw(st.sampled_from([0, 0, 1, -1, -2])))
        nz = draw(st.integers(1, 6))
        n = ngood + nz
        x = [2.0 + 5.0 * (i + 0.8 * draw(uf) * 0.5) / n for i in range(n)]
        zeros = sorted(draw(st.lists(st.integers(0, n - 1), min_size=nz, max_size=nz, unique=True)))
        neg = draw(st.lists(st.sampled_from(zeros), max_size=2, unique=True))
        return dict(x=x, sigma=0.05, amp=1.0, ph=[draw(uf) for _ in range(4)], noise=[draw(uf) for _ in range(n)], outl=[], osign=[], zeros=zeros, neg=neg,
                    perm=list(draw(st.permutations(list(range(n))))), nord=nord, kw=draw(st.sampled_from([dict(nbkpts=2), dict(bkspace=100.0)])),
                    upper=5, lower=5, maxiter=draw(st.sampled_from([0, 5])), wvary=False, weights='invvar', dups=[], tiny=True)
    n = draw(st.integers(40, 200))
    span = draw(st.sampled_from([1.0, 10.0, 1000.0]))
    x0 = draw(st.sampled_from([0.0, -3.0, 3500.0]))
    # distinct abscissae: jittered grid
    x = [x0 + span * (i + 0.8 * draw(uf) * 0.5) / n for i in range(n)]
    sigma = draw(st.sampled_from([0.05, 0.01, 0.2]))
    amp = draw(st.sampled_from([1.0, 100.0]))
    ph = [draw(uf) for _ in range(4)]
    noise = [draw(uf) + draw(uf) + draw(uf) for _ in range(n)]          # ~ N(0,1) shaped, |.| <= 3
    nout = draw(st.sampled_from([2, 1, 3, 4, 0]))
    outl = draw(st.lists(st.integers(0, n - 1), min_size=nout, max_size=nout, unique=True))
    osign = [draw(st.sampled_from([-1.0, 1.0])) * draw(st.sampled_from([20.0, 30.0, 50.0])) for _ in outl]
    zeros = draw(st.lists(st.integers(0, n - 1), min_size=draw(st.sampled_from([1, 3, 0])), max_size=max(3, n // 6), unique=True))
    neg = draw(st.lists(st.sampled_from(zeros), max_size=2, unique=True)) if zeros else []
    perm = draw(st.permutations(list(range(n))))
    opt = draw(st.sampled_from(['bkspace', 'nbkpts', 'bkspace', 'nbkpts', 'placed']))
    kw = dict(nbkpts=draw(st.integers(4, 9))) if opt == 'nbkpts' else dict(bkspace=span / draw(st.integers(3, 8)) * (1 + 0.03 * draw(uf)))
    if opt == 'placed':
        # breakpoints placed by the caller: five to nine positions, or a single one, of which those inside the data range count
        # (fewer than two inside: the two ends of the data are used instead)
        npl = draw(st.sampled_from([6, 1, 5, 9, 1, 7]))
        kw = dict(placed=sorted(x0 + span * (0.02 + 0.96 * (j + 0.5 + 0.3 * draw(uf)) / npl) for j in range(npl)))
    on_end = draw(st.sampled_from([None, 'min', 'both'])) if opt == 'placed' else None
    exact = None
    if opt == 'bkspace' and draw(st.integers(0, 2)) == 0:
        # a spacing that divides the range of the weighted data exactly (0.1 into 1, 0.4 into 10, ...): the end points are put on x0 and x0 + span
        kw = dict(bkspace=span / draw(st.sampled_from([5, 10, 4, 8, 25, 20])))
        exact = [x0, x0 + span]
    return dict(x=x, sigma=sigma, amp=amp, ph=ph, noise=noise, outl=outl, osign=osign, zeros=zeros, neg=neg, perm=list(perm),
                nord=draw(st.sampled_from([4, 3, 2])), kw=kw, placed_on_end=on_end, positional=draw(st.sampled_from([False, False, True])),
                upper=draw(st.one_of(st.sampled_from([0, 0.0, 5]), uf.map(lambda v: 3 + 3 * 0.5 * (1 + v)), uf.map(lambda v: 3 + 3 * 0.5 * (1 + v)), uf.map(lambda v: 3 + 3 * 0.5 * (1 + v)))),
                lower=draw(st.one_of(st.sampled_from([0, 0.0, 5]), uf.map(lambda v: 3 + 3 * 0.5 * (1 + v)), uf.map(lambda v: 3 + 3 * 0.5 * (1 + v)), uf.map(lambda v: 3 + 3 * 0.5 * (1 + v)))),
                maxiter=draw(st.sampled_from([3, 2, 10, 1, 0])), wvary=draw(st.booleans()),
                weights=draw(st.sampled_from(['invvar', 'invvar', 'invvar', 'none', 'none-integer-y', 'none-flat-y'])), exact_range=exact,
                lowblock=draw(st.sampled_from([None, None, None, [0.3, 0.65], [0.0, 0.4], [0.55, 1.0]])),
                # some abscissae occur twice or three times (two exposures on one grid, rounded positions)
                dups=draw(st.sampled_from([[], [], draw(st.lists(st.tuples(st.integers(1, n - 2), st.integers(1, n - 2)), min_size=1, max_size=8))])))


def normalise(case):
    """A rejection limit of exactly 0 (reject everything on that side) is exercised with maxiter = 0 and the other limit non-zero:
    with further iterations every pass halves the data until nothing is left, which is not a fit any more."""
    if case['upper'] == 0 and case['lower'] == 0:
        case = dict(case, lower=4.0)
    if case['upper'] == 0 or case['lower'] == 0:
        case = dict(case, maxiter=0)
    return case


def build(case):
    x = np.array(case['x'], dtype='f8')
    for i, j in case.get('dups', []):
        x[j] = x[i]
    n = len(x)
    if case.get('exact_range'):
        w0 = np.ones(n, dtype=bool)
        w0[case['zeros']] = False
        w0[case['neg']] = False
        gi = np.nonzero(w0)[0]
        x[gi[np.argmin(x[gi])]], x[gi[np.argmax(x[gi])]] = case['exact_range']
    s = (x - x.min()) / (x.max() - x.min())
    ph = case['ph']
    sig = case['sigma'] * case['amp']
    y = case['amp'] * (np.sin(3 * s + 3 * ph[0]) + 0.5 * ph[1] * s + 0.3 * np.cos(5 * s * (1 + 0.3 * ph[2])))
    sigv = sig * (1 + 0.5 * np.sin(np.arange(n) * 0.7)) if case['wvary'] else np.full(n, sig)
    y = y + sigv * np.array(case['noise']) * 0.6
    for i, a in zip(case['outl'], case['osign']):
        y[i] += a * sigv[i]
    iv = 1.0 / sigv ** 2
    if case.get('lowblock'):
        # a stretch of the data (a third of the range, several breakpoint intervals) carries weights a million times smaller: still
        # positively weighted points, to be fitted like all others
        a_, b_ = case['lowblock']
        blk = (s >= a_) & (s <= b_)
        iv[blk] *= 1.5e-6
    iv[case['zeros']] = 0.0
    iv[case['neg']] = -1.0
    return x, y, iv


def reference(t, nord, x, y, iv, lower, upper, maxiter, need=None):
    """the documented procedure with an independent dense solver; returns (coeff, mask, supported, near)"""
    order = np.argsort(x)
    xs, ys, ivs = x[order], y[order], iv[order]
    A = bslib.design(t, nord, xs, 'left')
    mask = ivs > 0
    inner = t[nord - 1:len(t) - nord + 1]
    near = False
    supported = True
    coeff = None
    for it in range(maxiter + 1):
        w = np.where(mask, ivs, 0.0)
        for a, c in zip(inner[:-1], inner[1:]):
            if ((xs >= a) & (xs <= c) & mask).sum() < (nord + 1 if need is None else need):
                supported = False
        sv = np.linalg.svd(A * np.sqrt(w)[:, None], compute_uv=False)
        if not (sv[-1] > 0 and sv[0] / sv[-1] < 1e4):
            supported = False
        if not supported:
            return None, None, False, near
        coeff, rank, _ = bslib.weighted_lstsq(A, ys, w)
        r = (ys - A.dot(coeff)) * np.sqrt(np.where(ivs > 0, ivs, 0.0))
        rm = r[mask]
        if (np.abs(rm + lower) < 1e-6).any() or (np.abs(rm - upper) < 1e-6).any():
            near = True
        new = mask & ~((r < -lower) | (r > upper))
        done = bool(np.array_equal(new, mask))
        mask = new
        if done:
            break
    out = np.zeros(len(x), dtype=bool)
    out[order] = mask
    return coeff, out, True, near


def body(case):
    from pydl.pydlutils.bspline import iterfit
    case = normalise(case)
    x, y, iv = build(case)
    n = len(x)
    nord, kw = case['nord'], case['kw']
    args = dict(nord=nord, upper=case['upper'], lower=case['lower'], maxiter=case['maxiter'], **{k_: (np.array(v_) if k_ == 'placed' else v_) for k_, v_ in kw.items()})
    wmode = case.get('weights', 'invvar')
    if 'placed' in args and case.get('placed_on_end') and len(args['placed']) >= 3:
        # a placed position exactly on the first (and last) positively weighted abscissa: it is inside the range, not outside
        gx = x[iv > 0] if wmode == 'invvar' else x
        pl = args['placed'].copy()
        pl[0] = gx.min()
        if case['placed_on_end'] == 'both':
            pl[-1] = gx.max()
        args['placed'] = pl
        note_label('placed-on-data-end')
    if wmode != 'invvar':
        # inverse variance omitted: documented default = 1 / (sample variance of y) for every point
        if wmode == 'none-integer-y':
            y = np.round(y * 100.0 / case['amp']).astype('i8')          # photon-count like integer data
        if wmode == 'none-flat-y':
            y = np.full(n, 3.0 * case['amp'])                            # exactly constant data: sample variance 0, documented fallback = unit weights
        yv = y.astype('f8')
        v_ = yv.var() * (float(n) / float(n - 1))
        iv = np.full(n, 1.0 / v_ if v_ > 0 else 1.0)
    keep = (x.copy(), y.copy(), iv.copy())
    perm = np.array(case['perm'])
    if wmode == 'invvar' and case.get('positional'):
        # the documented signature iterfit(xdata, ydata, invvar, upper, lower, ...): inverse variance and limits given by position
        rest = {k_: v_ for k_, v_ in args.items() if k_ not in ('upper', 'lower')}
        sset, mask = call(iterfit, x, y, iv, case['upper'], case['lower'], **rest)
        sset_p, mask_p = call(iterfit, x[perm].copy(), y[perm].copy(), invvar=iv[perm].copy(), **args)
        note_label('positional-limits')
    elif wmode == 'invvar':
        sset, mask = call(iterfit, x, y, invvar=iv, **args)
        sset_p, mask_p = call(iterfit, x[perm].copy(), y[perm].copy(), invvar=iv[perm].copy(), **args)
    else:
        sset, mask = call(iterfit, x, y, **args)
        sset_p, mask_p = call(iterfit, x[perm].copy(), y[perm].copy(), **args)
    y = y.astype('f8')
    with judge('shape'):
        mask = np.asarray(mask)
        mask_p = np.asarray(mask_p)
        check(mask.shape == (n,) and mask.dtype == bool and mask_p.shape == (n,), 'mask-malformed', lambda: dict(shape=mask.shape, dtype=str(mask.dtype)))
        check(all(np.array_equal(a, b) for a, b in zip(keep, (x, y, iv))), 'inputs-modified')
        t = np.asarray(sset.breakpoints, dtype='f8')
        lo, hi = t[nord - 1], t[len(t) - nord]
        if 'placed' in args:
            # the caller's positions inside the range of the fitted data are the breakpoints; only the outermost two may have been moved
            # onto the data ends
            gx = x[iv > 0]
            pin = np.sort(args['placed'][(args['placed'] >= gx.min()) & (args['placed'] <= gx.max())])
            if len(pin) >= 3:
                inner_t = t[nord - 1:len(t) - nord + 1]
                check(all(bool(np.any(inner_t == p)) for p in pin[1:-1]), 'placed-position-inside-the-data-range-is-not-a-breakpoint',
                      lambda: dict(placed=args['placed'].tolist(), breakpoints=inner_t.tolist(), data=[float(gx.min()), float(gx.max())]))
                note_label('placed-kept')
        if 'bkspace' in kw and wmode == 'invvar':
            # breakpoints `bkspace` apart over the weighted data: when the spacing divides their range exactly there are range/bkspace + 1
            xg = x[iv > 0]
            q = (xg.max() - xg.min()) / kw['bkspace']
            if q == int(q):
                check(len(t) - 2 * (nord - 1) == int(q) + 1, 'bkspace-not-honoured', lambda: dict(bkspace=kw['bkspace'], breakpoints=len(t) - 2 * (nord - 1), want=int(q) + 1))
                note_label('bkspace-divides-range')
    grid = lo + (hi - lo) * np.linspace(0.0, 1.0, 41)
    curve, gm = call(sset.value, grid.copy())
    curve_p, _ = call(sset_p.value, grid.copy())
    scale = np.abs(y[iv > 0]).max()
    with judge('permutation'):
        check(np.array_equal(np.asarray(sset_p.breakpoints), np.asarray(sset.breakpoints)), 'perm:knots-differ')
        check(bool(np.all(np.abs(np.asarray(curve) - np.asarray(curve_p)) <= 1e-8 * scale)), 'perm:curve-depends-on-input-order',
              lambda: dict(maxdev=float(np.abs(np.asarray(curve) - np.asarray(curve_p)).max())))
        # the two runs differ by round-off (amplified by the conditioning when weights span six decades): a residual that the
        # reference run saw within 1e-6 of a limit may fall on either side in either run - also a residual of ~1e-16 at a limit of 0
        # (the smallest problems - one interval, exactly `nord` good points - are determined by interpolation: the condition number decides)
        pre = reference(t, nord, x, y, iv, case['lower'], case['upper'], case['maxiter'], need=nord if case.get('tiny') else None)
        zero_lim = case['lower'] == 0 or case['upper'] == 0
        if not pre[3] and (pre[2] or not (zero_lim or case.get('lowblock'))):
            check(np.array_equal(mask_p, mask[perm]), 'perm:mask-not-in-caller-order', lambda: dict(ndiff=int((mask_p != mask[perm]).sum())))
    with judge('weights'):
        check(not mask[iv <= 0].any(), 'nonpositive-invvar-point-flagged-good', lambda: dict(idx=np.nonzero(mask & (iv <= 0))[0].tolist()))
    coeff, rmask, supported, near = pre
    if not supported:
        note_label('unsupported')
        return
    note_label('supported')
    if near:
        note_label('near-threshold-skipped')
        return
    with judge('procedure'):
        ref_curve = bslib.spline_value(t, coeff, nord, grid, 'left')
        dev = np.abs(np.asarray(curve, dtype='f8') - ref_curve)
        kind = 'maxiter0-curve-not-plain-weighted-fit' if case['maxiter'] == 0 else 'curve-differs-from-fit-reject-refit-procedure'
        check(bool(np.all(dev <= 1e-6 * scale)), kind, lambda: dict(maxdev=float(dev.max()), scale=float(scale), maxiter=case['maxiter'],
                                                                  n_outliers=len(case['outl']), upper=case['upper'], lower=case['lower']))
        check(np.array_equal(mask, rmask), 'mask-differs-from-fit-reject-refit-procedure',
              lambda: dict(pydl_only_good=np.nonzero(mask & ~rmask)[0].tolist(), ref_only_good=np.nonzero(~mask & rmask)[0].tolist(),
                           maxiter=case['maxiter'], upper=case['upper'], lower=case['lower']))
    # (v) is a consequence of (iv): an injected outlier that the reference procedure rejects is rejected by pydl too (masks are
    # equal).  An outlier the reference itself keeps (e.g. an end point a low-order spline can absorb) is only labelled.
    if any(iv[i] > 0 and rmask[i] for i in case['outl']):
        note_label('outlier-absorbed-by-the-fit')
    elif case['outl']:
        note_label('all-outliers-rejected')
    if not np.array_equal(rmask, iv > 0):
        note_label('something-rejected')


def classify(case):
    case = normalise(case)
    out = ['maxiter:%d' % case['maxiter'], 'nord:%d' % case['nord'], 'outliers:%d' % len(case['outl']), 'opt:' + list(case['kw'])[0],
           'weights:' + case.get('weights', 'invvar')]
    if case['upper'] == 0 or case['lower'] == 0:
        out.append('zero-threshold')
    if case.get('tiny'):
        out.append('exactly-determined')
    if case.get('dups'):
        out.append('repeated-abscissae')
    if case['zeros']:
        out.append('zero-weights')
    if case['neg']:
        out.append('negative-weights')
    if case['perm'] != sorted(case['perm']):
        out.append('permuted')
    if abs(case['upper'] - case['lower']) > 0.5:
        out.append('upper!=lower')
    return out


def nontrivial(case, labels):
    case = normalise(case)
    return (len(case['outl']) >= 1 and (bool(case['zeros']) or case.get('weights', 'invvar') != 'invvar') and 'permuted' in labels and case['maxiter'] >= 1 and 'supported' in labels
            and 'near-threshold-skipped' not in labels)


# ------------------------------------------------------------------ residuals exactly on a rejection limit
@st.composite
def tie_case(draw):
    m = draw(st.integers(2, 6))
    ys = []
    for _ in range(m):
        b = 4 * draw(st.integers(-3, 3))
        ys.append([b + 4 * draw(st.sampled_from([0, 0, 1, -1, 2, -2, 3, -3, 4])) for _ in range(4)])
    return dict(ys=ys, U=draw(st.sampled_from([3, 6, 2, 5, 9, 4, 1])), ivar=draw(st.sampled_from([1.0, 4.0, 0.25])), perm=list(draw(st.permutations(list(range(4 * m))))),
                side=draw(st.sampled_from(['both', 'upper', 'lower'])), on_knots=draw(st.booleans()))


def tie_body(case):
    """Order 1 (piecewise constant) fit of integer data, four points per interval, weights 1, 4 or 1/4: every interval mean and every
    normalised residual is a whole (or dyadic) number, computed exactly by any correct implementation.  One fit and one rejection
    pass (maxiter = 0): exactly the points whose normalised residual is beyond the limit are flagged, a point ON the limit is not."""
    from pydl.pydlutils.bspline import iterfit
    ys = np.array(case['ys'], dtype='f8')
    m = len(ys)
    # abscissae between the breakpoints, or on the integers 1..4m so that every fourth one sits exactly on a breakpoint: a point on
    # a breakpoint belongs to the interval that ends there (b[i], b[i+1]] - with that, every interval holds four points either way
    x = (1.0 if case.get('on_knots') else 0.5) + np.arange(4 * m, dtype='f8')
    y = ys.ravel()
    iv = np.full(4 * m, case['ivar'])
    U = float(case['U'])
    kw = dict(nord=1, bkpt=4.0 * np.arange(m + 1), maxiter=0)
    if case['side'] in ('both', 'upper'):
        kw['upper'] = U
    else:
        kw['upper'] = 1e6
    if case['side'] in ('both', 'lower'):
        kw['lower'] = U
    else:
        kw['lower'] = 1e6
    perm = np.array(case['perm'])
    sset, mask = call(iterfit, x[perm].copy(), y[perm].copy(), invvar=iv[perm].copy(), **kw)
    r = (ys - ys.mean(1, keepdims=True)).ravel() * np.sqrt(case['ivar'])        # exact: sums of four multiples of 4, divided by 4
    want = ~((r > kw['upper']) | (r < -kw['lower']))
    with judge('ties'):
        got = np.zeros(4 * m, dtype=bool)
        got[perm] = np.asarray(mask, dtype=bool)
        check(np.array_equal(got, want), 'mask-differs-on-exactly-representable-residuals',
              lambda: dict(residuals=r.tolist(), upper=kw['upper'], lower=kw['lower'], got=got.tolist(), want=want.tolist()))
        yv, mv = call(sset.value, x.copy())
        check(bool(np.array_equal(np.asarray(yv, dtype='f8'), np.repeat(ys.mean(1), 4))), 'curve-is-not-the-interval-mean',
              lambda: dict(got=np.asarray(yv).tolist(), want=np.repeat(ys.mean(1), 4).tolist(), on_knots=bool(case.get('on_knots'))))
    if (np.abs(r) == U).any():
        note_label('residual-exactly-on-limit')

# ------------------------------------------------------------------ a stretch without usable data wider than the order (breakpoints are dropped)
@st.composite
def gap_case(draw):
    nord = draw(st.sampled_from([4, 3, 2, 4]))
    n = draw(st.integers(120, 260))
    opt = draw(st.sampled_from(['bkspace', 'nbkpts', 'everyn', 'bkspace']))
    nint = draw(st.integers(16, 30))                      # breakpoint intervals over the data range
    outlier = draw(st.sampled_from([None, None, 0.15, 0.85, 0.3]))
    return dict(nord=nord, n=n, opt=opt, nint=nint, gap_start=draw(st.sampled_from([0.3, 0.45, 0.55, 0.2])), gap_width=draw(st.sampled_from([1.5, 2.0, 3.0])),
                coef=[draw(uf) for _ in range(4)], garbage=draw(st.sampled_from([0.0, 99.0, -1e6])), jitter=[draw(uf) for _ in range(8)], outlier=outlier,
                maxiter=draw(st.sampled_from([10, 20])) if outlier else draw(st.sampled_from([2, 5, 10, 3])), perm_seed=draw(st.integers(0, 10 ** 6)),
                two_gaps=draw(st.booleans()))


def gap_body(case):
    """data that are exactly a polynomial of degree < order (every spline on any set of knots that leaves the data supported fits them exactly), with a
    run of zero-weight points 1.5 - 3 x order breakpoint intervals wide, holding arbitrary values: the fit has to give up breakpoints and go round again.
    Whatever breakpoints it keeps, the returned curve must pass through the weighted points, the zero-weight points are flagged False and (no outlier)
    every weighted point True; a 60-sigma outlier away from the gap is flagged False."""
    from pydl.pydlutils.bspline import iterfit
    nord, n = case['nord'], case['n']
    k = np.arange(n, dtype='f8')
    x = 100.0 * (k + 0.3 * np.array([case['jitter'][i % 8] for i in range(n)])) / n
    c = case['coef']
    t = x / 100.0
    y = 2.0 + 3.0 * c[0] * t + (2.0 * c[1] * t ** 2 if nord >= 3 else 0.0) + (1.5 * c[2] * t ** 3 if nord >= 4 else 0.0)
    width = 100.0 / case['nint']
    iv = np.full(n, 25.0)
    lo = 100.0 * case['gap_start']
    gap = (x > lo) & (x < lo + min(case['gap_width'] * nord * width, 40.0))        # (weighted data remain on both sides of it)
    if case['two_gaps']:
        gap |= (x > 88.0 - nord * 1.2 * width) & (x < 88.0)
    iv[gap] = 0.0
    yy = y.copy()
    yy[gap] = case['garbage']
    clean = ~gap
    if case['outlier'] is not None:
        j = int(np.argmin(np.abs(x - 100.0 * case['outlier'])))
        if clean[j] and not gap[max(0, j - 6):j + 7].any():
            yy[j] += 12.0                          # 60 sigma
            clean[j] = False
            note_label('outlier')
        else:
            j = None
    else:
        j = None
    kw = dict(nord=nord, maxiter=case['maxiter'], upper=5.0, lower=5.0)
    if case['opt'] == 'bkspace':
        kw['bkspace'] = width
    elif case['opt'] == 'nbkpts':
        kw['nbkpts'] = case['nint'] + 1
    else:
        kw['everyn'] = max(2, int(round(n / case['nint'])))
    perm = np.random.RandomState(case['perm_seed']).permutation(n)
    sset, mask = call(iterfit, x[perm].copy(), yy[perm].copy(), invvar=iv[perm].copy(), **kw)
    with judge('gap'):
        m = np.zeros(n, dtype=bool)
        m[perm] = np.asarray(mask, dtype=bool)
        check(not m[gap].any(), 'gap:zero-weight-point-flagged-good', lambda: dict(n_flagged=int(m[gap].sum())))
        if j is None:
            check(bool(m[~gap].all()), 'gap:weighted-point-on-the-curve-flagged-bad', lambda: dict(n_bad=int((~m[~gap]).sum()), first=int(np.nonzero(~m & ~gap)[0][0]), nord=nord, opt=case['opt'], maxiter=case['maxiter']))
        else:
            check(not m[j], 'gap:outlier-flagged-good', lambda: dict(index=j))
        yf, vm = call(sset.value, x.copy())
        yf = np.asarray(yf, dtype='f8')
        err = np.abs(yf - y)[clean]
        check(bool(np.all(np.isfinite(yf[clean])) and err.max() <= 1e-6 * max(1.0, np.abs(y).max())), 'gap:curve-does-not-pass-through-the-weighted-points',
              lambda: dict(max_error=float(err.max()), at_x=float(x[clean][err.argmax()]), nord=nord, opt=case['opt'], maxiter=case['maxiter'], breakpoints_kept=int(np.asarray(sset.mask).sum()),
                           breakpoints=int(np.asarray(sset.mask).size)))
    if not np.asarray(sset.mask).all():
        note_label('breakpoints-dropped')


# ------------------------------------------------------------------ requiren (round 12)
@st.composite
def requiren_case(draw):
    n = draw(st.integers(60, 240))
    return dict(n=n, nzero=draw(st.integers(n // 8, n // 3)), seed=draw(st.integers(0, 10 ** 6)), requiren=draw(st.sampled_from([2, 1, 3, 4])),
                bkspace=draw(st.sampled_from([5.0, 4.0, 8.0, 2.5])), nord=draw(st.sampled_from([4, 3, 2])), maxiter=draw(st.sampled_from([0, 0, 2])),
                perm=list(draw(st.permutations(list(range(n))))))


def requiren_body(case):
    """iterfit(requiren=N) - the keyword combine1fiber uses: breakpoints are kept where at least N weighted points lie between them.  Which
    breakpoints that leaves is the package's business; that the answer does not depend on the order of the input is the property."""
    from pydl.pydlutils.bspline import iterfit
    n = case['n']
    k = np.arange(n, dtype='f8')
    x = 100.0 * k / (n - 1)
    u = np.modf(np.abs(np.sin(k * 12.9898 + case['seed']) * 43758.5453))[0]
    y = 10.0 + np.sin(x / 15.0) + 0.02 * (u - 0.5)
    iv = np.full(n, 2500.0)
    iv[np.argsort(np.modf(np.abs(np.sin(k * 78.233 + case['seed'] + 1) * 24634.6345))[0])[:case['nzero']]] = 0.0
    perm = np.array(case['perm'])
    kw = dict(nord=case['nord'], bkspace=case['bkspace'], requiren=case['requiren'], maxiter=case['maxiter'], upper=5, lower=5)
    s1, m1 = call(iterfit, x.copy(), y.copy(), invvar=iv.copy(), **kw)
    s2, m2 = call(iterfit, x[perm].copy(), y[perm].copy(), invvar=iv[perm].copy(), **kw)
    grid = np.linspace(0.0, 100.0, 301)
    c1, g1 = call(s1.value, grid.copy())
    c2, g2 = call(s2.value, grid.copy())
    with judge('requiren-order'):
        check(np.array_equal(np.asarray(s1.breakpoints), np.asarray(s2.breakpoints)) and np.array_equal(np.asarray(s1.mask), np.asarray(s2.mask)),
              'requiren:breakpoints-kept-depend-on-input-order', lambda: dict(sorted_kept=int(np.sum(s1.mask)), permuted_kept=int(np.sum(s2.mask)), requiren=case['requiren']))
        check(bool(np.all(np.abs(np.asarray(c1) - np.asarray(c2)) <= 1e-7 * 11.0)) and np.array_equal(np.asarray(g1), np.asarray(g2)), 'requiren:curve-depends-on-input-order',
              lambda: dict(maxdev=float(np.abs(np.asarray(c1) - np.asarray(c2)).max())))
        check(np.array_equal(np.asarray(m2), np.asarray(m1)[perm]), 'requiren:mask-not-in-caller-order')
        check(not np.asarray(m1)[iv <= 0].any(), 'requiren:zero-weight-point-flagged-good')
    if not np.all(s1.mask):
        note_label('breakpoints-dropped-by-requiren')
    if case['perm'] != sorted(case['perm']):
        note_label('permuted')


SUBCHECKS = [
    SubCheck('requiren_order', requiren_body, strategy=requiren_case, classify=lambda c: ['requiren:%d' % c['requiren'], 'nord:%d' % c['nord'], 'maxiter:%d' % c['maxiter']],
             nontrivial=lambda c, l: 'breakpoints-dropped-by-requiren' in l and 'permuted' in l, quick=600, thorough=20000, shards=(8, 16), floor=0.0,
             doc='iterfit(requiren=N): breakpoints kept, curve and mask do not depend on the order of the input'),
    SubCheck('exact_ties', tie_body, strategy=tie_case, classify=lambda c: ['side:' + c['side'], 'U:%d' % c['U']],
             nontrivial=lambda c, l: 'residual-exactly-on-limit' in l, quick=800, thorough=20000, shards=(4, 16),
             doc='normalised residuals that are exactly on a rejection limit are not beyond it (exact arithmetic case: order 1, integer data)'),
    SubCheck('gap_polynomial', gap_body, strategy=gap_case, classify=lambda c: ['nord:%d' % c['nord'], c['opt'], 'maxiter:%d' % c['maxiter'], 'outlier' if c['outlier'] else 'no-outlier'],
             nontrivial=lambda c, l: 'breakpoints-dropped' in l, quick=600, thorough=20000, shards=(8, 16), floor=0.0,
             doc='zero-weight stretches wider than the order (breakpoints dropped, refit): exact polynomial data must be reproduced at the weighted points, masks as documented'),
    SubCheck('iterfit_procedure', body, strategy=case_strategy, classify=classify, nontrivial=nontrivial,
             quick=2400, thorough=60000, shards=(16, 16), doc='permutation invariance, weight handling, reference fit/reject/refit procedure'),
]
