"""C19 -- wavelength, photometric-system and band-flux conversions are self-consistent."""
import math

import numpy as np
from hypothesis import strategies as st

from vk import SubCheck, Violation, call, judge, check, note_label

PROPERTY = 'C19'
LEVEL = 'exploration'
RULE = ('three Hypothesis sub-checks.  airtovac/vactoair: wavelengths 100 A .. 30 um given as Python float, NumPy scalar, 0-d array, float64/float32 '
        'arrays mixing both sides of 2000 A, Quantity scalars and arrays in Angstrom / nm / um; oracles: < 2000 A unchanged, vacuum > air above, both '
        'compositions are the identity where defined (1e-6 A), every input kind/unit gives the same physical answer in the caller\'s unit and type, '
        'input not modified.  sdssflux2ab: 1-20 x 5 arrays as fluxes, magnitudes, inverse variances: one offset per band, factor = 10^(-d/2.5), '
        'ivar factor = factor^-2.  filter_thru: 1-4 traces x 200-600 pixels, log-linear wavelength images (increasing or decreasing, covering all, '
        'some or no band) or the same as a trace set, flux families constant / linear / positive random, masks with runs, toair: linear in the flux, '
        'constant c -> c in every overlapped band and 0 elsewhere, within min/max of the flux, independent of masked pixel values.  '
        'Non-trivial: array straddling 2000 A; Quantity in nm/um; mask run inside a band.')
RULE += '  Also: integer wavelength arrays, mask flag values 1/-1/7/INT32_MIN, spectra touching a band by a fraction of an Angstrom (a constant must give c or exactly 0 in every band).'
RULE += ' Round 5: grids linear in wavelength (100-11000 A); int16/int32/uint16/uint32 wavelength arrays.'
ASSUMPTIONS = ['wavelengths within 1e-12 relative of the 2000 A threshold may be treated as either side (unit conversion rounding)',
               'float32 arrays are compared at float32 resolution (4 ulp), everything else at 1e-6 Angstrom',
               'filter_thru tolerances: linearity / constants 1e-9 relative; a band counts as overlapped when the wavelength image covers >= 3 pixels of non-zero response',
               'wavelength images are strictly monotonic along each trace']

uf = st.floats(-1.0, 1.0, allow_nan=False)


# ------------------------------------------------------------------ airtovac / vactoair
@st.composite
def wave_case(draw):
    kind = draw(st.sampled_from(['array', 'array', 'pyfloat', 'npscalar', 'zerod', 'quantity-array', 'quantity-scalar', 'array-f4', 'array-int']))
    n = 1 if kind in ('pyfloat', 'npscalar', 'zerod', 'quantity-scalar') else draw(st.integers(1, 12))

    def one():
        r = draw(st.sampled_from(['below', 'above', 'above', 'near', 'far']))
        if r == 'below':
            return 100.0 + 1900.0 * 0.5 * (1 + draw(uf)) * 0.999
        if r == 'near':
            return 2000.0 + draw(st.sampled_from([0.0, 1e-9, 0.5, 1.0, -1e-9, -0.5, 0.7]))
        if r == 'far':
            return 10 ** (4 + 1.477 * 0.5 * (1 + draw(uf)))
        return 2000.0 + 9000.0 * 0.5 * (1 + draw(uf))
    w = [one() for _ in range(n)]
    allbelow = draw(st.integers(0, 7)) == 0
    if allbelow:
        w = [100.0 + (x % 1800.0) for x in w]
    return dict(kind=kind, w=w, unit=draw(st.sampled_from(['AA', 'nm', 'um'])), func=draw(st.sampled_from(['airtovac', 'vactoair'])),
                idtype=draw(st.sampled_from(['i8', 'i4', 'u2', 'i2', 'u4'])))


def make_input(kind, w, unit, idtype='i8'):
    import astropy.units as u
    U = dict(AA=u.AA, nm=u.nm, um=u.um)[unit]
    scale = dict(AA=1.0, nm=0.1, um=1e-4)[unit]
    if kind == 'pyfloat':
        return float(w[0]), 1.0
    if kind == 'npscalar':
        return np.float64(w[0]), 1.0
    if kind == 'zerod':
        return np.array(w[0], dtype='f8'), 1.0
    if kind == 'array':
        return np.array(w, dtype='f8'), 1.0
    if kind == 'array-f4':
        return np.array(w, dtype='f4'), 1.0
    if kind == 'array-int':
        # whole-Angstrom wavelength grids (np.arange), also in the narrow integer types of detector / table columns
        top = np.iinfo(idtype).max
        return np.array([min(int(round(v)), top) for v in w], dtype=idtype), 1.0
    if kind == 'quantity-scalar':
        return (w[0] * scale) * U, scale
    return (np.array(w, dtype='f8') * scale) * U, scale


def plain(x):
    """value array in the units the object carries"""
    return np.atleast_1d(np.asarray(getattr(x, 'value', x), dtype='f8'))


def wave_body(case):
    import copy
    import astropy.units as u
    from pydl.goddard.astro import airtovac, vactoair
    f, g = (airtovac, vactoair) if case['func'] == 'airtovac' else (vactoair, airtovac)
    arg, scale = make_input(case['kind'], case['w'], case['unit'], case.get('idtype', 'i8'))
    keep = copy.deepcopy(arg)
    out = call(f, arg)
    win = plain(arg) / scale                # Angstrom
    with judge('conversion'):
        # caller's unit / type
        if case['kind'].startswith('quantity'):
            check(isinstance(out, u.Quantity) and out.unit == arg.unit, 'wave:answer-not-in-callers-unit', lambda: dict(got=repr(getattr(out, 'unit', type(out).__name__)), want=str(arg.unit)))
        else:
            check(not isinstance(out, u.Quantity), 'wave:unexpected-quantity')
        wout = plain(out) / scale
        check(wout.shape == win.shape, 'wave:shape', lambda: dict(got=wout.shape, want=win.shape))
        check(bool(np.all(np.isfinite(wout))), 'wave:non-finite')
        f4 = case['kind'] == 'array-f4'
        tol = (lambda v: 4 * np.spacing(np.float32(v)).astype('f8')) if f4 else (lambda v: np.full(np.shape(v), 1e-6))
        # unit conversion (nm, um <-> Angstrom) rounds at the 1e-16 level: values within 1e-12 of the threshold may fall on either side
        below = win < 2000.0 * (1 - 1e-12)
        check(bool(np.all(np.abs(wout[below] - win[below]) <= (1e-9 * win[below] if not f4 else 0))), 'wave:below-2000-changed',
              lambda: dict(inp=win[below].tolist(), out=wout[below].tolist(), unit=case['unit'], kind=case['kind']))
        above = win > 2000.0 * (1 + 1e-12)
        if case['func'] == 'airtovac':
            check(bool(np.all(wout[above] > win[above])), 'wave:vacuum-not-greater-than-air', lambda: dict(inp=win[above].tolist(), out=wout[above].tolist()))
        else:
            check(bool(np.all(wout[above] < win[above])), 'wave:air-not-smaller-than-vacuum', lambda: dict(inp=win[above].tolist(), out=wout[above].tolist()))
        # input untouched
        same = (np.array_equal(plain(arg), plain(keep)) and type(arg) is type(keep))
        check(same, 'wave:input-modified')
    # inverse composition
    back = call(g, out)
    with judge('inverse'):
        wb = plain(back) / scale
        if case['func'] == 'airtovac':
            sel = win >= 2000.0 * (1 + 1e-12)
        else:
            sel = wout >= 2000.0 * (1 + 1e-12)
        check(bool(np.all(np.abs(wb[sel] - win[sel]) <= tol(win[sel]))), 'wave:inverse-composition-not-identity',
              lambda: dict(func=case['func'], inp=win[sel].tolist(), back=wb[sel].tolist(), kind=case['kind'], unit=case['unit']))
    # same physical result as plain float64 Angstrom arrays, element by element as Python floats
    ref = np.array([float(call(f, float(v))) for v in win]) if not f4 else None
    with judge('kinds-agree'):
        if ref is not None:
            clear = np.abs(win - 2000.0) > 2000.0e-12
            check(bool(np.all(np.abs(wout - ref)[clear] <= 1e-9 * np.maximum(ref, 1.0)[clear])), 'wave:input-kinds-disagree',
                  lambda: dict(kind=case['kind'], unit=case['unit'], got=wout.tolist(), as_floats=ref.tolist()))
    if (win < 2000).any() and (win >= 2000).any():
        note_label('straddles-2000A')
    if (win < 2000).all():
        note_label('all-below-2000A')


def wave_classify(case):
    return ['kind:' + case['kind'], 'unit:' + case['unit'], 'func:' + case['func']]


def wave_nontrivial(case, labels):
    return 'straddles-2000A' in labels or (case['kind'].startswith('quantity') and case['unit'] != 'AA')


# ------------------------------------------------------------------ whole frames in one call (round 9 seed C19_9B, built in round 11)
def frame_cases(tier):
    shapes = [(260, 4100), ((1 << 20) + 5,)] if tier == 'quick' else [(260, 4100), ((1 << 20) + 5,), (512, 4112), (3 * (1 << 20) - 1,), (1, (1 << 21) + 3)]
    for shape in shapes:
        for func in ('airtovac', 'vactoair'):
            for kind in (('array', 'quantity-nm') if tier == 'quick' else ('array', 'quantity-nm', 'array-f4')):
                yield dict(shape=list(shape), func=func, kind=kind)


def frame_body(case):
    """one call on a whole wavelength frame (more than 2^20 pixels): the answer for a pixel does not depend on how many other pixels are
    in the call - it equals the answer of calls on rows / pieces of at most 4100 pixels, which the air_vacuum sub-check judges"""
    import astropy.units as u
    from pydl.goddard.astro import airtovac, vactoair
    f = airtovac if case['func'] == 'airtovac' else vactoair
    shape = tuple(case['shape'])
    n = int(np.prod(shape))
    k = np.arange(n, dtype='f8')
    # 1500 - 10400 A in no particular order, both sides of the 2000 A threshold everywhere in the frame
    w = (1500.0 + 8900.0 * np.modf(k * 0.6180339887498949)[0]).reshape(shape)
    if case['kind'] == 'array-f4':
        w = w.astype('f4')
    arg = (w * 0.1) * u.nm if case['kind'] == 'quantity-nm' else w
    keep = w.copy()
    out = call(f, arg)
    flat = (arg.reshape(-1) if shape != (n,) else arg)
    pieces = [call(f, flat[i:i + 4100]) for i in range(0, n, 4100 * 37)]          # every 37th piece of 4100 pixels, and the last one
    pieces_at = list(range(0, n, 4100 * 37))
    last = call(f, flat[n - 4100:])
    with judge('frame'):
        if case['kind'] == 'quantity-nm':
            check(isinstance(out, u.Quantity) and out.unit == u.nm, 'wave:frame-answer-not-in-callers-unit')
        o = np.asarray(getattr(out, 'value', out))
        check(o.shape == shape, 'wave:frame-shape', lambda: dict(got=o.shape, want=shape))
        check(o.dtype == w.dtype or case['kind'] != 'array-f4', 'wave:frame-dtype', lambda: dict(got=str(o.dtype)))
        of = o.reshape(-1)
        for i0, pc in zip(pieces_at + [n - 4100], pieces + [last]):
            pv = np.asarray(getattr(pc, 'value', pc))
            seg = of[i0:i0 + len(pv)]
            bad = ~(np.abs(seg - pv) <= 1e-12 * np.abs(pv))
            check(not bad.any(), 'wave:pixel-of-a-whole-frame-differs-from-the-same-pixel-converted-alone',
                  lambda: dict(first_bad_pixel=int(i0 + np.flatnonzero(bad)[0]), npixels=n, in_frame=float(seg[bad][0]), alone=float(pv[bad][0]), func=case['func'], kind=case['kind']))
        wa = w.reshape(-1).astype('f8')
        oa = of.astype('f8') * (10.0 if case['kind'] == 'quantity-nm' else 1.0)
        above = wa > 2000.0 * (1 + 1e-6)
        moved = (oa > wa) if case['func'] == 'airtovac' else (oa < wa)
        check(bool(moved[above].all()), 'wave:frame-pixel-above-2000A-not-converted', lambda: dict(first=int(np.flatnonzero(above & ~moved)[0]), npixels=n))
        check(np.array_equal(np.asarray(getattr(arg, 'value', arg)).reshape(shape), keep * (0.1 if case['kind'] == 'quantity-nm' else 1.0)), 'wave:frame-input-modified')
    note_label('pixels>2^20')


# ------------------------------------------------------------------ sdssflux2ab
@st.composite
def ab_case(draw):
    rows = draw(st.integers(1, 20))
    return dict(rows=rows, vals=[[10 ** (2 * draw(uf)) for _ in range(5)] for _ in range(rows)], dtype=draw(st.sampled_from(['f8', 'f4', 'f8', 'i8', 'i4'])))


def ab_body(case):
    from pydl.photoop.sdssio import sdssflux2ab
    if case['dtype'].startswith('i'):
        # whole-number fluxes (counts) / magnitudes held in an integer array (D48): 1 .. 1000
        x = np.maximum(1, np.round(10 * np.array(case['vals']))).astype(case['dtype'])
    else:
        x = np.array(case['vals'], dtype=case['dtype'])
    keep = x.copy()
    fl = np.asarray(call(sdssflux2ab, x), dtype='f8')
    mg = np.asarray(call(sdssflux2ab, x, magnitude=True), dtype='f8')
    iv = np.asarray(call(sdssflux2ab, x, ivar=True), dtype='f8')
    rt = 1e-5 if case['dtype'] == 'f4' else 1e-12
    with judge('sdssflux2ab'):
        check(fl.shape == x.shape and mg.shape == x.shape and iv.shape == x.shape, 'ab:shape')
        xf = x.astype('f8')
        fac = fl / xf
        off = mg - xf
        ifac = iv / xf
        for b in range(5):
            check(bool(np.all(np.abs(fac[:, b] - fac[0, b]) <= rt * fac[0, b])), 'ab:flux-factor-not-one-per-band')
            check(bool(np.all(np.abs(off[:, b] - off[0, b]) <= rt * 100 + (1e-4 if case['dtype'] == 'f4' else 0))), 'ab:magnitude-offset-not-one-per-band')
            d = -2.5 * math.log10(fac[0, b])
            check(abs(d - off[0, b]) <= (2e-4 if case['dtype'] == 'f4' else 1e-10), 'ab:flux-factor-and-magnitude-offset-inconsistent', lambda: dict(band=b, from_flux=d, from_mag=float(off[0, b])))
            check(bool(np.all(np.abs(ifac[:, b] * fac[0, b] ** 2 - 1) <= (1e-4 if case['dtype'] == 'f4' else 1e-10))), 'ab:ivar-factor-not-flux-factor^-2',
                  lambda: dict(band=b, ivar_factor=float(ifac[0, b]), flux_factor=float(fac[0, b])))
        want = np.array([-0.042, 0.036, 0.015, 0.013, -0.002])
        check(bool(np.all(np.abs(off[0] - want) <= (1e-4 if case['dtype'] == 'f4' else 1e-12))), 'ab:documented-offsets', lambda: dict(got=off[0].tolist()))
        check(np.array_equal(x, keep), 'ab:input-modified')


# ------------------------------------------------------------------ filter_thru
BANDS = [(2980, 4130), (3630, 5830), (5380, 7230), (6430, 8630), (7730, 11230)]
HAIR = {'hair-r': (4800.0, 5380.05), 'hair-g': (5829.9, 7000.0), 'hair-u': (2980.0, 2982.0)}


@st.composite
def filt_case(draw):
    ntr = draw(st.sampled_from([2, 1, 3, 4]))
    nx = draw(st.integers(200, 600))
    cover = draw(st.sampled_from(['all', 'blue', 'red', 'none', 'middle', 'hair-r', 'hair-g', 'hair-u']))
    # hair-*: the spectrum touches a band by a fraction of an Angstrom (its last / first pixel is just inside the band edge)
    covers = dict(all=(2800.0, 11500.0), blue=(3000.0, 5000.0), red=(6000.0, 10500.0), none=(12000.0, 15000.0), middle=(4500.0, 7000.0))
    covers.update(HAIR)
    lo, hi = covers[cover]
    # traces of one image may cover different bands (e.g. blue and red arms); first trace uses `cover`
    per_trace = [cover] + [draw(st.sampled_from([cover, cover, 'all', 'red', 'blue', 'none', 'hair-r', 'hair-g'])) for _ in range(ntr - 1)]
    return dict(ntr=ntr, nx=nx, cover=cover, lo=lo, hi=hi, ranges=[list(covers[c]) for c in per_trace], direction=draw(st.sampled_from(['increasing', 'decreasing'])),
                fam=draw(st.sampled_from(['random', 'linear', 'const'])), seed=draw(st.integers(0, 10 ** 6)), c=draw(st.sampled_from([3.0, -2.5, 1e3, 0.0])),
                mask=draw(st.sampled_from([None, 'runs', 'runs'])), runs=[[draw(st.integers(0, ntr - 1)), draw(st.integers(1, nx - 30)), draw(st.integers(1, 25))] for _ in range(3)],
                toair=draw(st.booleans()), wset=draw(st.sampled_from([False, False, True])), wfunc=draw(st.sampled_from(['legendre', 'chebyshev', 'poly', 'legendre'])), wxmin=draw(st.sampled_from([0, 0, 1, 500])), grid=draw(st.sampled_from(['log', 'log', 'log', 'linear-wide'])), maskval=draw(st.sampled_from([1, -1, 7, -2147483648])), dead_trace=draw(st.sampled_from([False, False, True])), sandwich=draw(st.sampled_from([False, False, True])), wjump=draw(st.sampled_from([False, True])), alpha=draw(uf), beta=draw(uf), shift=[draw(uf) for _ in range(4)])


def filt_body(case):
    from pydl.pydlspec2d.spec2d import filter_thru
    from pydl.pydlutils.trace import xy2traceset, traceset2xy
    ntr, nx = case['ntr'], case['nx']
    k = np.arange(nx, dtype='f8')
    rows = []
    jump = None
    if case['wset'] and case.get('wjump') and case.get('grid') != 'linear-wide' and not case.get('sandwich'):
        x0j = float(case.get('wxmin', 0))
        jump = dict(xjumplo=x0j, xjumphi=x0j + 10.0, xjumpval=25.0)          # xjumplo = 0 when the columns are numbered from 0
        note_label('trace-set-with-a-jump')
    for t in range(ntr):
        jit = 0.0 if tuple(case['ranges'][t]) in HAIR.values() else 0.002 * case['shift'][t]
        l0 = math.log10(case['ranges'][t][0]) + jit
        l1 = math.log10(case['ranges'][t][1]) + jit
        ll = l0 + (l1 - l0) * k / (nx - 1)
        if case.get('grid') == 'linear-wide':
            # a grid linear in wavelength from the far UV to the near IR: d(log lambda) per pixel changes by a factor ~100 along the trace
            ll = np.log10(100.0 + (11000.0 - 100.0) * k / (nx - 1))
        if case.get('sandwich') and ntr >= 3 and 0 < t < ntr - 1:
            # (see below) a trace whose dispersion has another shape than its neighbours': linear in wavelength instead of in its logarithm
            ll = np.log10(10 ** l0 + (10 ** l1 - 10 ** l0) * k / (nx - 1))
        if jump is not None:
            # a detector with a gap: the wavelength is linear in the pixel number plus a ramp of `xjumpval` pixels between xjumplo and xjumphi
            # (a trace set with a jump describes exactly this; the ramp starts at the first column)
            xn_ = k + np.clip((k + case.get('wxmin', 0) - jump['xjumplo']) / (jump['xjumphi'] - jump['xjumplo']), 0.0, 1.0) * jump['xjumpval']
            ll = l0 + (l1 - l0) * xn_ / xn_[-1]
            rows.append(ll if case['direction'] == 'increasing' else (l0 + l1 - ll))
            continue
        rows.append(ll if case['direction'] == 'increasing' else ll[::-1].copy())
    if case.get('sandwich') and ntr >= 3:
        # the first and the last trace share one wavelength solution exactly, the traces between them have their own
        rows[-1] = rows[0].copy()
        note_label('first-and-last-trace-share-a-solution')
    logwave = np.array(rows)
    wave = 10 ** logwave
    idx = np.arange(ntr * nx, dtype='f8').reshape(ntr, nx)
    u1 = np.modf(np.abs(np.sin(idx * 12.9898 + case['seed']) * 43758.5453))[0]
    u2 = np.modf(np.abs(np.sin(idx * 78.233 + case['seed'] + 1) * 24634.6345))[0]
    if case['fam'] == 'const':
        f1 = np.full((ntr, nx), 2.0)
    elif case['fam'] == 'linear':
        f1 = 1.0 + 3.0 * k[None, :] / nx + np.arange(ntr)[:, None]
    else:
        f1 = 0.5 + u1
    f2 = 0.2 + u2
    kw = dict(toair=case['toair'])
    if case['wset']:
        # the wavelength solution as a trace set: any of the three bases, columns numbered from 0, 1 or a CCD offset
        x0_ = case.get('wxmin', 0)
        xpos = np.tile(k + x0_, (ntr, 1))
        kw['wset'] = xy2traceset(xpos, logwave, ncoeff=3 if case.get('grid') != 'linear-wide' else 6, xmin=x0_, xmax=x0_ + nx - 1, maxiter=0, func=case.get('wfunc', 'legendre'), **(jump or {}))
        # what the trace set says the wavelengths are (the reference image for everything below, and for a second call with waveimg=)
        wave = 10 ** np.asarray(traceset2xy(kw['wset'])[1], dtype='f8')
        if jump is not None:
            # the wavelengths were built to be exactly linear in the jumped coordinate, so the fit is exact and the reference image is the one
            # built here, not the package's evaluation of its own trace set
            wave = 10 ** logwave
    else:
        kw['waveimg'] = wave
    mask = None
    dead = None
    if case['mask']:
        mask = np.zeros((ntr, nx), dtype='i4')
        for t, a, m in case['runs']:
            mask[t, a:a + m] = case.get('maskval', 1)
        if case.get('dead_trace') and ntr >= 2:
            # one trace masked completely (a dead fibre): nothing can be said about it, the other traces are unaffected
            dead = ntr - 1
            mask[dead, :] = case.get('maskval', 1)
        kw['mask'] = mask

    def run(flux):
        return np.asarray(call(filter_thru, flux.copy(), **kw), dtype='f8')
    r1, r2 = run(f1), run(f2)
    if case['wset']:
        # the same wavelengths handed over as an image give the same band fluxes
        kw_img = dict(kw)
        kw_img.pop('wset')
        kw_img['waveimg'] = wave.copy()
        r1_img = np.asarray(call(filter_thru, f1.copy(), **kw_img), dtype='f8')
        with judge('wset-vs-waveimg'):
            check(r1_img.shape == r1.shape and bool(np.all(np.abs(r1_img - r1) <= (1e-9 if jump is None else 1e-6) * max(1.0, np.abs(r1).max()))), 'filter:wset-and-waveimg-disagree',
                  lambda: dict(maxdev=float(np.abs(r1_img - r1).max()), func=case.get('wfunc'), xmin=case.get('wxmin')))
    if ntr >= 2:
        # "per trace": every row of the answer is a function of that trace alone - the same trace handed over as a one-row image gives the same
        # band fluxes
        with judge('per-trace'):
            for t in range(ntr):
                if mask is not None and t == dead:
                    continue
                kw1 = dict(toair=case['toair'], waveimg=wave[t:t + 1].copy())
                if mask is not None:
                    kw1['mask'] = mask[t:t + 1].copy()
                rt = np.asarray(call(filter_thru, f1[t:t + 1].copy(), **kw1), dtype='f8')
                check(rt.shape == (1, 5) and bool(np.all(np.abs(rt[0] - r1[t]) <= 1e-9 * max(1.0, np.abs(r1).max()))), 'filter:trace-result-depends-on-the-other-traces',
                      lambda: dict(trace=t, alone=rt.tolist(), in_image=r1[t].tolist()))
    # round 9 seed C19_9A (built in round 11): the caller goes on using its wavelength image / trace set - refills it in place with another
    # solution of another dispersion shape (linear in wavelength between the same ends) - and asks again: the answer is the one a fresh
    # copy of that second solution gets
    w2 = wave[:, :1] + (wave[:, -1:] - wave[:, :1]) * k[None, :] / (nx - 1)
    kwh = dict(toair=case['toair'])
    if mask is not None:
        kwh['mask'] = mask
    if case['wset'] and jump is None:
        x0_ = case.get('wxmin', 0)
        other = xy2traceset(np.tile(k + x0_, (ntr, 1)), np.log10(w2), ncoeff=kw['wset'].coeff.shape[1], xmin=x0_, xmax=x0_ + nx - 1, maxiter=0, func=case.get('wfunc', 'legendre'))
        import copy as _copy
        holder = _copy.deepcopy(kw['wset'])          # the harness' own trace set stays as it is for the relations below
        call(filter_thru, f1.copy(), wset=holder, **kwh)
        holder.coeff[...] = other.coeff
        again = np.asarray(call(filter_thru, f1.copy(), wset=holder, **kwh), dtype='f8')
        fresh = np.asarray(call(filter_thru, f1.copy(), wset=other, **kwh), dtype='f8')
        holder_kind = 'trace set'
    else:
        holder = wave.copy()
        call(filter_thru, f1.copy(), waveimg=holder, **kwh)
        holder[...] = w2
        again = np.asarray(call(filter_thru, f1.copy(), waveimg=holder, **kwh), dtype='f8')
        fresh = np.asarray(call(filter_thru, f1.copy(), waveimg=w2.copy(), **kwh), dtype='f8')
        holder_kind = 'wavelength image'
    if case['wset']:
        # round 12: the trace set is documented as the wavelength solution "if waveimg is not specified": with both handed over the image counts
        both = np.asarray(call(filter_thru, f1.copy(), waveimg=w2.copy(), wset=kw['wset'], **kwh), dtype='f8')
        alone = np.asarray(call(filter_thru, f1.copy(), waveimg=w2.copy(), **kwh), dtype='f8')
        with judge('waveimg-and-wset'):
            check(both.shape == alone.shape and bool(np.all(np.abs(both - alone) <= 1e-9 * max(1.0, np.abs(alone).max()))), 'filter:trace-set-overrides-the-wavelength-image',
                  lambda: dict(maxdev=float(np.abs(both - alone).max())))
    with judge('refilled-solution'):
        check(again.shape == fresh.shape and bool(np.all(np.abs(again - fresh) <= 1e-9 * max(1.0, np.abs(fresh).max()))), 'filter:stale-answer-after-the-wavelength-solution-was-refilled-in-place',
              lambda: dict(holder=holder_kind, maxdev=float(np.abs(again - fresh).max()), again=again.tolist()[:2], fresh=fresh.tolist()[:2]))
    a, b = case['alpha'], case['beta']
    r12 = run(a * f1 + b * f2)
    rc = run(np.full((ntr, nx), case['c']))
    # an image of counts (integer dtype) gives the same band fluxes as the same numbers held as floats
    fi = np.round(f1 * 1000).astype('i4')
    ri, rf = run(fi), run(fi.astype('f8'))
    with judge('integer-flux'):
        check(ri.shape == rf.shape and bool(np.all(np.abs(ri - rf) <= 1e-9 * max(1.0, np.abs(rf).max()))), 'filter:integer-flux-image-differs-from-float',
              lambda: dict(maxdev=float(np.abs(ri - rf).max()), got=ri.tolist()[:2]))
    # which bands are overlapped by each trace (>= 3 pixels inside the response support, away from its ends)
    over = np.zeros((ntr, 5), dtype=bool)
    clear = np.zeros((ntr, 5), dtype=bool)
    for j, (b0, b1) in enumerate(BANDS):
        inside = (wave > b0 + 60) & (wave < b1 - 60)
        over[:, j] = inside.sum(1) >= 3
        clear[:, j] = ((wave > b0 - 60) & (wave < b1 + 60)).sum(1) == 0
    with judge('filter_thru'):
        check(r1.shape == (ntr, 5), 'filter:shape', lambda: dict(got=r1.shape))
        check(bool(np.all(np.isfinite(r1)) and np.all(np.isfinite(rc))), 'filter:non-finite')
        sc = max(1.0, np.abs(r1).max(), np.abs(r2).max())
        check(bool(np.all(np.abs(r12 - (a * r1 + b * r2)) <= 1e-9 * sc)), 'filter:not-linear-in-flux', lambda: dict(maxdev=float(np.abs(r12 - (a * r1 + b * r2)).max())))
        c = case['c']
        check(bool(np.all(np.abs(rc[over] - c) <= 1e-9 * max(1.0, abs(c)))), 'filter:constant-spectrum-not-preserved',
              lambda: dict(c=c, got=rc.tolist(), overlapped=over.tolist(), direction=case['direction'], cover=case['cover']))
        check(bool(np.all(rc[clear] == 0)), 'filter:non-overlapped-band-not-zero', lambda: dict(got=rc.tolist(), clear=clear.tolist()))
        # whatever the amount of overlap (a hair is enough), the weighted mean of a constant is that constant, and without overlap it is 0
        either = (rc == 0) | (np.abs(rc - c) <= 1e-9 * max(1.0, abs(c)))
        check(bool(np.all(either)), 'filter:constant-spectrum-gives-neither-c-nor-0', lambda: dict(c=c, got=rc.tolist(), cover=case['cover'], ranges=case['ranges']))
        if c != 0 and bool(np.any((rc != 0) & ~over)):
            note_label('band-touched-by-a-hair')
        for fl, r in ((f1, r1), (f2, r2)):
            good = fl if mask is None else np.where(mask != 0, np.nan, fl)
            if dead is not None:
                good[dead, :] = fl[dead, :]
            mn, mx = np.nanmin(good, axis=1), np.nanmax(good, axis=1)
            for t in range(ntr):
                if t == dead:
                    continue
                for j in range(5):
                    if over[t, j]:
                        check(mn[t] - 1e-9 <= r[t, j] <= mx[t] + 1e-9, 'filter:result-outside-flux-range',
                              lambda: dict(trace=t, band=j, got=float(r[t, j]), min=float(mn[t]), max=float(mx[t]), direction=case['direction']))
        if mask is not None:
            f1b = f1.copy()
            f1b[mask != 0] = 1e6 * (1 + u2[mask != 0])
            if case['seed'] % 3 == 0:
                # round 12: what bad pixels often hold - NaN / infinities
                f1b[mask != 0] = np.where(u2[mask != 0] < 0.4, np.nan, np.where(u2[mask != 0] < 0.7, np.inf, -np.inf))
                note_label('non-finite-values-under-the-mask')
            r1b = run(f1b)
            live = [t for t in range(ntr) if t != dead]
            check(bool(np.all(np.abs(r1b - r1)[live] <= 1e-9 * sc)), 'filter:depends-on-masked-pixel-values', lambda: dict(maxdev=float(np.abs(r1b - r1)[live].max())))
    if mask is not None:
        for t, a0, m in case['runs']:
            wl = wave[t, a0:a0 + m]
            if any(((wl > b0) & (wl < b1)).any() for b0, b1 in BANDS):
                note_label('mask-run-inside-band')
    if over.any():
        note_label('some-band-overlapped')


def filt_classify(case):
    return ['grid:' + case.get('grid', 'log'), 'cover:' + case['cover'], case['direction'], 'mixed-coverage' if len({tuple(r) for r in case['ranges']}) > 1 else 'same-coverage', 'fam:' + case['fam'], ('maskval:%d' % case.get('maskval', 1)) if case['mask'] else 'nomask', 'wset' if case['wset'] else 'waveimg',
            'toair' if case['toair'] else 'vacuum']


SUBCHECKS = [
    SubCheck('air_vacuum', wave_body, strategy=wave_case, classify=wave_classify, nontrivial=wave_nontrivial,
             quick=3000, thorough=100000, shards=(8, 16), doc='airtovac / vactoair: thresholds, inverses, input kinds and units'),
    SubCheck('air_vacuum_frame', frame_body, kind='exhaustive', cases=frame_cases, classify=lambda c: ['n:%d' % int(np.prod(c['shape'])), c['func'], c['kind']], nontrivial=lambda c, l: True,
             shards=(8, 16), floor=0.0, doc='one airtovac / vactoair call on a whole frame of more than 2^20 pixels: every pixel gets the answer it gets alone'),
    SubCheck('sdssflux2ab', ab_body, strategy=ab_case, classify=lambda c: [c['dtype'], 'rows:%d' % min(c['rows'], 3)],
             nontrivial=lambda c, l: c['rows'] >= 2, quick=1000, thorough=30000, shards=(1, 8), doc='one AB offset per band in flux / magnitude / ivar forms'),
    SubCheck('filter_thru', filt_body, strategy=filt_case, classify=filt_classify, nontrivial=lambda c, l: 'mask-run-inside-band' in l or ('some-band-overlapped' in l and c['direction'] == 'decreasing'),
             quick=320, thorough=6000, shards=(16, 16), doc='response-weighted mean: linear, constant-preserving, bounded, mask-independent'),
]
