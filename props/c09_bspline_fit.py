"""C09 -- B-spline fit is the weighted least-squares optimum; failure is a status code."""
import math

import numpy as np
from hypothesis import strategies as st

from vk import SubCheck, Violation, call, judge, check, note_label
from props import bslib

PROPERTY = 'C09'
LEVEL = 'exploration'
RULE = ('four Hypothesis sub-checks.  (1) optimality: 20-250 sorted abscissae (uniform, jittered, clustered; intervals holding exactly one '
        'point are produced on purpose), order 1-5, nbkpts/bkspace/explicit breakpoints, y = smooth + noise or polynomial of degree < order, '
        'invvar positive with 0-20 % zeros; oracle = dense weighted lstsq on the independent Cox-de Boor design matrix (asserted when '
        'every segment holds a positively weighted point, the normal-matrix diagonal is >= 1e-6 of its mean and cond < 1e4), plus '
        'polynomial reproduction, zero-weight invariance, linearity in y.  (2) banded Cholesky: SPD banded A = L0 L0^T + dI, bandwidth '
        '1-6, n 1-40: L L^T = A, padding zero, solve gives A x = b.  (3) non-SPD / non-finite matrices must be signalled through the '
        'return value.  (4) ill-posed fits (gaps wider than the breakpoint spacing, empty segments, all-zero weights, too few points / '
        'breakpoints) must return a documented status (0, -1 with a changed breakpoint mask, -2, or >0) and finite coefficients, '
        'through fit, repeated fit and iterfit.  Non-trivial: (1) >=3 interior breakpoints and >=1 zero weight; (2) bandwidth >=2 and n > '
        'bandwidth; (3,4) the failure is not at index 0 / a status other than 0 is reached.')
RULE += '  Also: a second fit on the same object after the abscissa buffer was overwritten in place.'
ASSUMPTIONS = ['fit() is called with sorted abscissae (its documented precondition; iterfit sorts for it)',
               'optimality tolerance 1e-6 of the data scale for fitted values; coefficient-level relations (zero-weight invariance, linearity) use (1e-9 + 1e-14 cond^2) x scale because pydl solves the normal equations; asserted for cond < 1e4',
               'breakpoints strictly increasing',
               'cholesky inputs use the padded lower-banded layout the docstrings describe']

uf = st.floats(-1.0, 1.0, allow_nan=False)


def setup():
    bslib.selfcheck()


# ------------------------------------------------------------------ (1) optimality
@st.composite
def fit_case(draw):
    n = draw(st.integers(20, 250))
    fam = draw(st.sampled_from(['uniform', 'jitter', 'clustered', 'sparse-tail', 'pixels']))
    span = draw(st.sampled_from([1.0, 10.0, 100.0]))
    if fam == 'pixels':
        x = [float(i) for i in range(n)]            # pixel indices; also fitted from an integer array (see `xdtype`)
    elif fam == 'uniform':
        x = [span * i / (n - 1) for i in range(n)]
    elif fam == 'jitter':
        x = sorted(span * (i + 0.45 * draw(uf)) / n for i in range(n))
    elif fam == 'clustered':
        x = sorted(span * 0.5 * (1 + draw(uf) ** 3) for _ in range(n))
    else:
        m = max(4, n // 2)
        x = sorted([0.5 * span * i / m for i in range(m)] + [0.5 * span + 0.5 * span * draw(st.integers(0, 40)) / 40.0 for _ in range(draw(st.integers(1, 8)))])
    x = sorted(set(x))
    n = len(x)
    nord = draw(st.sampled_from([4, 3, 2, 5, 1, 4, 3, 2]))
    opt = draw(st.sampled_from(['nbkpts', 'nbkpts', 'bkspace', 'bkpt']))
    if opt == 'nbkpts':
        kw = dict(nbkpts=draw(st.integers(2, 12)))
    elif opt == 'bkspace':
        kw = dict(bkspace=(x[-1] - x[0]) / draw(st.integers(1, 10)) * (1 + 0.05 * draw(uf)))
    else:
        inner = sorted(set(x[0] + (x[-1] - x[0]) * 0.5 * (1 + draw(uf)) for _ in range(draw(st.integers(0, 8)))))
        kw = dict(bkpt=[x[0]] + [v for v in inner if x[0] < v < x[-1]] + [x[-1]])
    ykind = draw(st.sampled_from(['smooth', 'smooth', 'poly', 'noise']))
    amp = draw(st.sampled_from([1.0, 1000.0, 1e-3]))
    coef = [draw(uf) for _ in range(6)]
    noise = [draw(uf) for _ in range(16)]
    zf = draw(st.sampled_from([0.0, 0.05, 0.2]))
    zeros = [i for i in range(n) if zf and (math.sin(12.9898 * i + 78.233 * noise[i % 16]) * 43758.5453) % 1.0 < zf]
    wkind = draw(st.sampled_from(['const', 'vary']))
    if draw(st.integers(0, 11)) == 0:
        # round 9: exactly determined single-segment problems: a polynomial piece through as many weighted points as the order,
        # a few weightless points among them (about one case in twelve)
        nord = draw(st.sampled_from([4, 3, 2, 5]))
        extra = draw(st.integers(0, 3))
        n = nord + extra
        x = sorted(set(span * (i + 0.3 * draw(uf)) / n for i in range(n)))
        n = len(x)
        zeros = sorted(draw(st.permutations(list(range(n))))[:max(0, n - nord)])
        kw = dict(nbkpts=2)
        fam = 'exactly-determined'
    return dict(x=x, nord=nord, kw=kw, ykind=ykind, amp=amp, coef=coef, noise=noise, zeros=zeros, wkind=wkind, fam=fam,
                wscale=draw(st.sampled_from([1.0, 1.0, 1.0, 1e-12, 1e-6, 1e6, 1e9, 1e12])),
                alpha=draw(uf), beta=draw(uf), xdtype=draw(st.sampled_from(['i8', 'u2', 'u4', 'i4', 'u8'])) if fam == 'pixels' else None,
                counts=draw(st.sampled_from([None, None, 'i2', 'u2', 'i4'])))


def make_y(case, x, which=0):
    c = case['coef']
    s = (x - x[0]) / max(x[-1] - x[0], 1e-300)
    if case['ykind'] == 'poly':
        deg = case['nord'] - 1
        y = sum(c[k] * s ** k for k in range(deg + 1))
    else:
        y = c[0] * np.sin(3 * s + c[1]) + c[2] * s + 0.3 * c[3] * np.cos(7 * s * (1 + which))
        if case['ykind'] == 'noise' or which:
            nz = np.array([case['noise'][(7 * i + 3 * which) % 16] for i in range(len(x))])
            y = y + 0.2 * nz
    return case['amp'] * y


def fit_body(case):
    from pydl.pydlutils.bspline import bspline
    x = np.array(case['x'], dtype='f8')
    nord = case['nord']
    kw = dict(case['kw'])
    if 'bkpt' in kw:
        kw['bkpt'] = np.array(kw['bkpt'], dtype='f8')
    n = len(x)
    w = np.ones(n) if case['wkind'] == 'const' else 0.5 + np.abs(np.sin(np.arange(n) * 0.37)) * 3
    w[case['zeros']] = 0.0
    # round 9: the unit of the weights is free (sigma = 1e-5 everywhere gives 1e10): the minimiser does not depend on it
    w = w * case.get('wscale', 1.0)
    if case.get('wscale', 1.0) != 1.0:
        note_label('weight-scale:%g' % case['wscale'])
    if case.get('fam') == 'exactly-determined':
        note_label('exactly-determined')
    y = make_y(case, x)

    def fresh():
        return call(bspline, x, nord=nord, **{k: (v.copy() if hasattr(v, 'copy') else v) for k, v in kw.items()})
    b = fresh()
    t = np.asarray(b.breakpoints, dtype='f8')
    st_, yfit = call(b.fit, x, y.copy(), w.copy())
    # reference
    # a point exactly on a knot belongs to the interval on its left (pydl's intrv convention); this only
    # matters for discontinuous (order 1) splines, for which the convention is part of the model being fitted
    A = bslib.design(t, nord, x, 'left')
    sw = np.sqrt(w)
    Aw = A * sw[:, None]
    N = Aw.T.dot(Aw)
    diag = np.diag(N)
    seg_ok = True
    inner = t[nord - 1:len(t) - nord + 1]
    for q, (a, c) in enumerate(zip(inner[:-1], inner[1:])):
        if not (((x > a) | ((q == 0) & (x >= a))) & (x <= c) & (w > 0)).any():
            seg_ok = False
    sv = np.linalg.svd(Aw, compute_uv=False)
    cond = sv[0] / sv[-1] if (sv[-1] > 0 and len(sv) == A.shape[1]) else np.inf     # fewer good rows than coefficients = rank deficient
    supported = seg_ok and diag.min() >= 1e-6 * diag.mean() and cond < 1e4
    with judge('status'):
        code = int(np.ravel(st_)[0]) if not isinstance(st_, int) else st_
        check(np.asarray(yfit).shape == x.shape, 'fit:yfit-shape')
    if not supported:
        note_label('not-well-supported')
        with judge('weak'):
            check(code in (0, -1, -2) or code > 0, 'fit:undocumented-status', lambda: dict(status=repr(st_)))
            check(bool(np.all(np.isfinite(np.asarray(b.coeff, dtype='f8')))), 'fit:non-finite-coeff')
        return
    note_label('well-supported')
    with judge('optimality'):
        check(code == 0, 'fit:status-nonzero-on-supported-problem', lambda: dict(status=code, cond=float(cond), nord=nord, kw=case['kw']))
        ref, rank, _ = bslib.weighted_lstsq(A, y, w)
        scale = max(np.abs(y).max(), 1e-300)
        coeff = np.asarray(b.coeff, dtype='f8')
        check(coeff.shape == ref.shape, 'fit:coeff-shape')
        ctol = (1e-9 + 1e-14 * cond ** 2) * max(scale, np.abs(coeff).max())
        yref = A.dot(ref)
        good = w > 0
        check(bool(np.all(np.abs(np.asarray(yfit)[good] - yref[good]) <= 1e-6 * scale)), 'fit:not-the-least-squares-optimum',
              lambda: dict(maxdev=float(np.abs(np.asarray(yfit) - yref)[good].max()), scale=float(scale), cond=float(cond), nord=nord, kw=case['kw'], n=n))
        # chi-square is minimal: no worse than the reference
        chi_p = float((w * (y - A.dot(coeff)) ** 2).sum())
        chi_r = float((w * (y - yref) ** 2).sum())
        check(chi_p <= chi_r * (1 + 1e-8) + 1e-10 * scale ** 2 * w.sum(), 'fit:chi2-not-minimal', lambda: dict(pydl=chi_p, reference=chi_r))
        yv, mk = call(b.value, x.copy())
        check(bool(np.all(np.abs(np.asarray(yv) - np.asarray(yfit)) <= 1e-9 * scale)), 'fit:value-differs-from-yfit')
        if case['ykind'] == 'poly':
            check(bool(np.all(np.abs(np.asarray(yfit) - y) <= 1e-8 * scale)), 'fit:polynomial-not-reproduced',
                  lambda: dict(maxdev=float(np.abs(np.asarray(yfit) - y).max()), nord=nord))
    # zero-weight invariance
    if case['zeros']:
        y2 = y.copy()
        y2[case['zeros']] += 17.0 * case['amp']
        b2 = fresh()
        s2, _ = call(b2.fit, x, y2, w.copy())
        with judge('zero-weight'):
            check(bool(np.all(np.abs(np.asarray(b2.coeff) - coeff) <= ctol)), 'fit:zero-weight-points-influence-the-fit',
                  lambda: dict(maxdev=float(np.abs(np.asarray(b2.coeff) - coeff).max())))
    # the same numbers held in other types give the same fit: pixel indices in an (unsigned) integer array, photon counts and
    # whole-number weights in 16-bit integers (their product does not fit in 16 bits)
    if case.get('xdtype'):
        xi = x.astype(case['xdtype'])
        bi = call(bspline, xi.copy(), nord=nord, **{k: (v.copy() if hasattr(v, 'copy') else v) for k, v in kw.items()})
        si, yfi = call(bi.fit, xi.copy(), y.copy(), w.copy())
        with judge('integer-abscissae'):
            check(int(np.ravel(si)[0]) == 0 and np.shape(bi.coeff) == coeff.shape and bool(np.all(np.abs(np.asarray(bi.coeff, dtype='f8') - coeff) <= ctol)),
                  'fit:integer-abscissae-give-another-fit', lambda: dict(status=repr(si), xdtype=case['xdtype'], maxdev=float(np.abs(np.asarray(bi.coeff, dtype='f8') - coeff).max()) if np.shape(bi.coeff) == coeff.shape else None))
        note_label('xdtype:' + case['xdtype'])
    if case.get('counts'):
        cdt = case['counts']
        yc = np.round(y / scale * 20000).astype('i8')
        if cdt[0] == 'u':
            yc = np.abs(yc)
        wc = (1 + np.arange(n) % 3) * (w > 0)
        bf, bc_ = fresh(), fresh()
        call(bf.fit, x, yc.astype('f8'), wc.astype('f8'))
        sc_, _ = call(bc_.fit, x, yc.astype(cdt), wc.astype(cdt))
        with judge('integer-counts'):
            dev = np.abs(np.asarray(bc_.coeff, dtype='f8') - np.asarray(bf.coeff, dtype='f8'))
            check(bool(np.all(dev <= (1e-9 + 1e-14 * cond ** 2) * 20000 * 10)), 'fit:integer-y-and-weights-give-another-fit', lambda: dict(maxdev=float(dev.max()), dtype=cdt))
        note_label('counts:' + cdt)
    # linearity
    ya = make_y(case, x, which=1)
    al, be = case['alpha'], case['beta']
    ba, bc = fresh(), fresh()
    call(ba.fit, x, ya.copy(), w.copy())
    call(bc.fit, x, al * y + be * ya, w.copy())
    with judge('linearity'):
        lin = al * coeff + be * np.asarray(ba.coeff)
        check(bool(np.all(np.abs(np.asarray(bc.coeff) - lin) <= 3 * ctol * max(1.0, np.abs(ya).max() / scale))), 'fit:not-linear-in-y',
              lambda: dict(maxdev=float(np.abs(np.asarray(bc.coeff) - lin).max())))
    # a second data set fitted with the same object and the same abscissa buffer, overwritten in place: the fit belongs to the
    # data it is given now (nothing about an earlier call may be remembered)
    xb = x.copy()
    bb = call(bspline, xb, nord=nord, **{k: (v.copy() if hasattr(v, 'copy') else v) for k, v in kw.items()})
    call(bb.fit, xb, y.copy(), w.copy())
    if n > 2:
        xb[1:-1] = x[1:-1] + 0.45 * (x[2:] - x[1:-1])         # stays sorted and inside the same range
    A2 = bslib.design(t, nord, xb, 'left')
    Aw2 = A2 * sw[:, None]
    sv2 = np.linalg.svd(Aw2, compute_uv=False)
    cond2 = sv2[0] / sv2[-1] if (sv2[-1] > 0 and len(sv2) == A2.shape[1]) else np.inf
    seg2 = all((((xb > a) | ((q == 0) & (xb >= a))) & (xb <= c) & (w > 0)).any() for q, (a, c) in enumerate(zip(inner[:-1], inner[1:])))
    d2 = np.diag(Aw2.T.dot(Aw2))
    if seg2 and cond2 < 1e4 and d2.min() >= 1e-6 * d2.mean():
        yb = make_y(case, xb)
        s3, yfit3 = call(bb.fit, xb, yb.copy(), w.copy())
        with judge('refit-in-place'):
            ref3, _, _ = bslib.weighted_lstsq(A2, yb, w)
            sc3 = max(np.abs(yb).max(), 1e-300)
            check(bool(np.all(np.abs(np.asarray(yfit3)[good] - A2.dot(ref3)[good]) <= 1e-6 * sc3)), 'fit:second-fit-on-same-object-not-optimal',
                  lambda: dict(maxdev=float(np.abs(np.asarray(yfit3) - A2.dot(ref3))[good].max()), nord=nord))
        note_label('refit-in-place')


def fit_classify(case):
    x = np.array(case['x'])
    out = ['nord:%d' % case['nord'], 'y:' + case['ykind'], 'opt:' + list(case['kw'])[0]]
    if case['zeros']:
        out.append('zero-weights')
    nb = case['kw'].get('nbkpts') or (len(case['kw']['bkpt']) if 'bkpt' in case['kw'] else int((x[-1] - x[0]) / case['kw']['bkspace']) + 1)
    if nb >= 5:
        out.append('>=3-interior-breakpoints')
    return out


def fit_nontrivial(case, labels):
    return 'well-supported' in labels and '>=3-interior-breakpoints' in labels and 'zero-weights' in labels


# ------------------------------------------------------------------ (2) banded Cholesky on SPD matrices
@st.composite
def spd_case(draw):
    n = draw(st.integers(1, 40))
    bw = draw(st.sampled_from([3, 2, 4, 6, 5, 1]))
    L0 = [[draw(uf) for _ in range(bw)] for _ in range(n)]
    return dict(n=n, bw=bw, L0=L0, shift=draw(st.sampled_from([1e-3, 0.1, 1.0, 10.0])), b=[draw(uf) for _ in range(n)],
                scale=draw(st.sampled_from([1.0, 1e6, 1e-6, 1e150, 1e306, 1e-150])),      # any magnitude a double can hold
                # round 11: a whole-number matrix and right-hand side held in integer arrays (counts): diagonally dominant, so positive definite
                int_kind=draw(st.sampled_from([None, None, None, 'i8', 'i4'])))


def dense_from(case):
    n, bw = case['n'], case['bw']
    if case.get('int_kind'):
        A = np.zeros((n, n))
        for j in range(n):
            A[j, j] = 2 * bw + 1 + abs(int(round(3 * case['L0'][j][0])))
            for i in range(1, bw):
                if j + i < n:
                    A[j + i, j] = A[j, j + i] = int(round(case['L0'][j][i]))
        return A
    L = np.zeros((n, n))
    for j in range(n):
        for i in range(bw):
            if j + i < n:
                L[j + i, j] = case['L0'][j][i] + (1.5 if i == 0 else 0.0)
    return (L.dot(L.T) + case['shift'] * np.eye(n)) * case['scale']


def to_banded(A, bw):
    n = A.shape[0]
    l = np.zeros((bw, n + bw))
    for i in range(bw):
        for j in range(n - i):
            l[i, j] = A[j + i, j]
    return l


def spd_body(case):
    from pydl.pydlutils.bspline import cholesky_band, cholesky_solve
    if case.get('int_kind'):
        case = dict(case, scale=1.0)
    A = dense_from(case)
    n, bw = case['n'], case['bw']
    l = to_banded(A, bw)
    ik = case.get('int_kind')
    if ik:
        l = l.astype(ik)
        note_label('integer-matrix')
    keep = l.copy()
    err, L = call(cholesky_band, l)
    with judge('cholesky_band'):
        check(isinstance(err, (int, np.integer)) and int(err) == -1, 'cholesky:spd-reported-as-error', lambda: dict(err=repr(err), n=n, bw=bw))
        L = np.asarray(L, dtype='f8')
        check(L.shape == l.shape, 'cholesky:shape')
        check(bool(np.all(L[:, n:] == 0)), 'cholesky:padding-not-zero')
        Ld = np.zeros((n, n))
        for i in range(bw):
            for j in range(n - i):
                Ld[j + i, j] = L[i, j]
        check(bool(np.all(np.abs(Ld.dot(Ld.T) - A) <= 1e-10 * np.abs(A).max())), 'cholesky:LLt-differs-from-A',
              lambda: dict(maxdev=float(np.abs(Ld.dot(Ld.T) - A).max())))
        check(np.array_equal(l, keep), 'cholesky:input-modified')
    bvec = np.zeros(n + bw)
    bvec[:n] = np.array(case['b']) * (case['scale'] if abs(math.log10(case['scale'])) > 100 else 1.0)      # keeps the solution of order one at extreme scales
    if ik:
        bvec = np.round(10 * bvec)
    x = call(cholesky_solve, L, bvec.astype(ik) if ik else bvec.copy())
    with judge('cholesky_solve'):
        x = np.asarray(x, dtype='f8')
        check(x.shape == bvec.shape and bool(np.all(x[n:] == 0)), 'solve:shape-or-padding')
        # the reference solves the same system divided by the common factor (LAPACK's LU overflows on entries of 1e306; seen in a
        # thorough run: pydl's answer was finite, the reference was not)
        fac = case['scale'] if abs(math.log10(case['scale'])) > 100 else 1.0
        ref = np.linalg.solve(A / fac, bvec[:n] / fac)
        condA = np.linalg.cond(A / fac)
        check(bool(np.all(np.abs(x[:n] - ref) <= 1e-8 * max(np.abs(ref).max(), 1e-300) * condA ** 0.5 + 1e-300)), 'solve:Ax-differs-from-b',
              lambda: dict(maxdev=float(np.abs(x[:n] - ref).max()), cond=float(condA)))


# ------------------------------------------------------------------ (3) non-SPD signalling
@st.composite
def bad_case(draw):
    base = draw(spd_case())
    kind = draw(st.sampled_from(['indefinite', 'indefinite', 'nonpos-diag', 'below-mininf', 'nan', 'inf']))
    pos = draw(st.integers(0, base['n'] - 1))
    return dict(base=base, kind=kind, pos=pos, big=draw(st.sampled_from([3.0, 10.0, 1e3])))


def bad_body(case):
    from pydl.pydlutils.bspline import cholesky_band
    base = case['base']
    A = dense_from(base)
    n, bw = base['n'], base['bw']
    pos = case['pos']
    mininf = 0.0
    kind = case['kind']
    if kind == 'indefinite':
        if n < 2 or bw < 2:
            kind = 'nonpos-diag'
        else:
            p = min(pos, n - 2)
            # dominant off-diagonal entry with positive diagonal: 2x2 minor has negative determinant
            A[p + 1, p] = A[p, p + 1] = case['big'] * math.sqrt(A[p, p] * A[p + 1, p + 1])
            pos = p
    if kind == 'nonpos-diag':
        A[pos, pos] = -abs(A[pos, pos])
    elif kind == 'below-mininf':
        mininf = float(A[pos, pos] * 2)
    l = to_banded(A, bw)
    if kind == 'nan':
        l[min(bw - 1, 1), min(pos, max(0, n - 2))] = np.nan
    elif kind == 'inf':
        l[0, pos] = np.inf
    keep = l.copy()
    err, out = call(cholesky_band, l, mininf=mininf)
    with judge('signalling'):
        bad = not (isinstance(err, (int, np.integer)) and int(err) == -1)
        check(bad, 'non-spd-matrix-accepted:' + kind, lambda: dict(n=n, bw=bw, pos=pos))
        idx = np.atleast_1d(np.asarray(err))
        check(idx.dtype.kind in 'iu' and bool(np.all((idx >= 0) & (idx < max(n, 1)))), 'error-index-out-of-range:' + kind, lambda: dict(err=repr(err), n=n))
        check(np.array_equal(np.asarray(out), keep, equal_nan=True), 'input-matrix-not-returned:' + kind)
        if kind == 'indefinite':
            # round 11: "the index where the problem was detected" - fit() hands it to maskpoints(), so it decides which breakpoints are
            # dropped.  The factorisation proceeds column by column: the problem is detected at the first column j whose leading
            # (j+1) x (j+1) block is no longer positive definite.  Judged only when both sides of that statement hold with a margin.
            scale = float(np.abs(A).max())
            first = None
            for j in range(n):
                ev = np.linalg.eigvalsh(A[:j + 1, :j + 1])
                if ev[0] < -1e-6 * scale:
                    first = j
                    break
                if ev[0] <= 1e-6 * scale:
                    break          # borderline block: not judged
            if first is not None:
                note_label('failure-column-judged')
                if first < bw - 1:
                    note_label('failure-inside-the-first-band-width')
                check(idx.tolist() == [first], 'error-index-is-not-the-column-where-the-factorisation-fails',
                      lambda: dict(reported=idx.tolist(), first_non_positive_definite_leading_block=first, n=n, bw=bw))
    if pos > 0:
        note_label('failure-not-at-index-0')


# ------------------------------------------------------------------ (4) ill-posed fits
@st.composite
def ill_case(draw):
    nord = draw(st.sampled_from([4, 3, 2, 5, 1, 4, 3, 2]))
    kind = draw(st.sampled_from(['gap', 'gap', 'three-islands', 'zero-weight-run', 'all-zero-weight', 'few-points', 'lone-end-point', 'zero-weight-tail', 'zero-weight-head', 'sparse-regions']))
    if kind == 'sparse-regions':
        # unit-spaced explicit breakpoints; at two or three places the data are too thin (empty segment, a segment holding one point, empty
        # segment, ...) without any coefficient having a zero diagonal, so the banded factorisation itself fails, reports only the FIRST bad
        # column, and the fit needs one masking round per region
        nord = draw(st.sampled_from([2, 2, 3]))
        nseg = draw(st.integers(26, 40))
        nreg = draw(st.sampled_from([2, 2, 3]))
        starts, pos = [], draw(st.integers(4, 9))
        for _ in range(nreg):
            if pos + 6 < nseg - 3:
                starts.append(pos)
            pos += draw(st.integers(8, 12))
        long_ = draw(st.booleans())
        empty, single = set(), set()
        for s0 in starts:
            empty.update([s0, s0 + 2] + ([s0 + 4] if long_ else []))
            single.update([s0 + 1] + ([s0 + 3] if long_ else []))
        jit = draw(st.sampled_from([0.0, 0.0, 0.0625]))
        x = []
        for seg in range(nseg):
            if seg in empty:
                continue
            if seg in single:
                x.append(seg + 0.5)
                continue
            x += [seg + 0.25 - jit, seg + 0.5, seg + 0.75 + jit / 2]
        return dict(x=x, nord=nord, kind=kind, bkspace=1.0, bkpt=[float(i) for i in range(nseg + 1)], how='refit', maxiter=0, run=[0.1, 0.1],
                    regions=[[s0, s0 + (4 if long_ else 2)] for s0 in starts])
    n = draw(st.integers(12, 120))
    u = [0.5 * (1 + draw(uf)) for _ in range(n)]
    if kind == 'gap':
        a = draw(st.sampled_from([0.2, 0.3, 0.45]))
        x = sorted([10 * a * v for v in u[:n // 2]] + [10 - 10 * a * v for v in u[n // 2:]])
    elif kind == 'three-islands':
        x = sorted([v for v in u[:n // 3]] + [4.5 + v for v in u[n // 3:2 * n // 3]] + [9 + v for v in u[2 * n // 3:]])
    elif kind == 'few-points':
        x = sorted(10 * v for v in u[:max(2, nord + draw(st.integers(-1, 2)))])
    elif kind == 'lone-end-point':
        x = sorted([6 * v for v in u[:-1]] + [draw(st.sampled_from([7.6, 9.9, 8.2]))])
    else:
        x = sorted(10 * v for v in u)
    x = sorted(set(x))
    if len(x) < 2:
        x = [0.0, 10.0]
    return dict(x=x, nord=nord, kind=kind, bkspace=draw(st.sampled_from([0.2, 0.5, 1.0, 1.5])), how=draw(st.sampled_from(['fit', 'refit', 'iterfit'])),
                maxiter=draw(st.integers(0, 3)), run=[draw(st.floats(0.1, 0.6)), draw(st.floats(0.05, 0.4))])


def ill_body(case):
    from pydl.pydlutils.bspline import bspline, iterfit
    x = np.array(case['x'], dtype='f8')
    n = len(x)
    y = np.sin(x) + 0.01 * np.cos(37 * x)
    w = np.ones(n)
    if case['kind'] == 'zero-weight-run':
        a = x[0] + case['run'][0] * (x[-1] - x[0])
        w[(x >= a) & (x <= a + case['run'][1] * (x[-1] - x[0]) + 1.0)] = 0
    elif case['kind'] == 'all-zero-weight':
        w[:] = 0
    elif case['kind'] == 'zero-weight-tail':
        w[-max(1, int(case['run'][1] * 10)):] = 0          # the last few points carry no weight (beyond the last breakpoint of the good data)
    elif case['kind'] == 'zero-weight-head':
        w[:max(1, int(case['run'][1] * 10))] = 0
    statuses = []
    if case['how'] == 'iterfit':
        if not (w > 0).any():
            # documented refusal: ValueError('No valid data points.')
            try:
                call(iterfit, x, y, invvar=w, nord=case['nord'], bkspace=case['bkspace'], maxiter=case['maxiter'], allowed=(ValueError,))
            except ValueError:
                note_label('iterfit-refused-no-valid-points')
                return
            return
        sset, mask = call(iterfit, x, y, invvar=w, nord=case['nord'], bkspace=case['bkspace'], maxiter=case['maxiter'])
        with judge('iterfit'):
            check(np.asarray(mask).shape == x.shape, 'ill:iterfit-mask-shape')
            check(bool(np.all(np.isfinite(np.asarray(sset.coeff, dtype='f8')))), 'ill:iterfit-non-finite-coeff')
        if not np.all(sset.mask):
            note_label('breakpoints-masked')
        return
    if case.get('bkpt') is not None:
        b = call(bspline, x, nord=case['nord'], bkpt=np.array(case['bkpt'], dtype='f8'))
    else:
        b = call(bspline, x, nord=case['nord'], bkspace=case['bkspace'])
    before = np.asarray(b.mask).copy()
    for it in range(12 if case['how'] == 'refit' else 1):
        prev = np.asarray(b.mask).copy()
        st_, yfit = call(b.fit, x, y, w)
        with judge('fit-status'):
            code = int(np.ravel(st_)[0])
            statuses.append(code)
            check(code in (0, -1, -2) or code > 0, 'ill:undocumented-status', lambda: dict(status=repr(st_)))
            check(bool(np.all(np.isfinite(np.asarray(b.coeff, dtype='f8')))), 'ill:non-finite-coeff', lambda: dict(status=code))
            check(np.asarray(yfit).shape == x.shape and bool(np.all(np.isfinite(np.asarray(yfit, dtype='f8')))), 'ill:yfit-malformed')
            if code == -1:
                now = np.asarray(b.mask)
                check(bool((now != prev).any()) and bool(np.all(now <= prev)), 'ill:status--1-without-masking-breakpoints',
                      lambda: dict(before=int(prev.sum()), after=int(now.sum())))
        if code != -1:
            break
    # after breakpoints were dropped, a status-0 fit must be the weighted least-squares optimum on the REDUCED knot vector
    mk = np.asarray(b.mask, dtype=bool)
    if statuses[-1] == 0 and not mk.all() and len(statuses) > 1:
        tred = np.asarray(b.breakpoints, dtype='f8')[mk]
        nord = case['nord']
        if len(tred) >= 2 * nord:
            A = bslib.design(tred, nord, x, 'left')
            Aw = A * np.sqrt(w)[:, None]
            sv = np.linalg.svd(Aw, compute_uv=False)
            if len(sv) == A.shape[1] and sv[-1] > 0 and sv[0] / sv[-1] < 1e4:
                note_label('refit-on-reduced-knots-checked')
                ref, _, _ = bslib.weighted_lstsq(A, y, w)
                yref = A.dot(ref)
                good = w > 0
                inrange = (x >= tred[nord - 1]) & (x <= tred[len(tred) - nord])
                with judge('refit-optimality'):
                    sel = good & inrange
                    dev = np.abs(np.asarray(yfit, dtype='f8')[sel] - yref[sel])
                    check(bool(np.all(dev <= 1e-6 * max(1.0, np.abs(y).max()))), 'ill:refit-after-masking-not-least-squares-on-reduced-knots',
                          lambda: dict(maxdev=float(dev.max()), nord=nord, masked=int((~mk).sum()), statuses=statuses))
                    cf = np.asarray(b.coeff, dtype='f8')[mk[nord:]]
                    check(cf.shape == ref.shape and bool(np.all(np.abs(cf - ref) <= 1e-6 * max(1.0, np.abs(ref).max()) * (1 + (sv[0] / sv[-1]) ** 2 * 1e-8))),
                          'ill:refit-coefficients-differ-from-dense-solve', lambda: dict(maxdev=float(np.abs(cf - ref).max()) if cf.shape == ref.shape else 'shape'))
    # status -2 says "this cannot be fitted": it is a false report when the breakpoints still in play carry a comfortably well-posed problem
    # (pydl itself only gives up after its factorisation of exactly these normal equations has failed, which a condition number below 1e4
    # of the weighted design rules out)
    if statuses[-1] == -2 and mk.sum() > 2 * case['nord'] and (w > 0).any():
        tred = np.asarray(b.breakpoints, dtype='f8')[mk]
        A = bslib.design(tred, case['nord'], x, 'left')
        Aw = A * np.sqrt(w)[:, None]
        sv = np.linalg.svd(Aw, compute_uv=False)
        note_label('status--2-judged')
        with judge('failure-report'):
            check(not (len(sv) == A.shape[1] and sv[-1] > 0 and sv[0] / sv[-1] < 1e4), 'ill:status--2-for-a-well-posed-problem-on-the-remaining-breakpoints',
                  lambda: dict(statuses=statuses, cond=float(sv[0] / sv[-1]), good_breakpoints=int(mk.sum()), nord=case['nord']))
    # thin regions, few and far apart: dropping the breakpoints strictly inside each of them leaves a well-posed problem (witnessed here by
    # the condition number of that reduced design), so the report/mask/refit protocol must not end in "cannot be fitted"
    if case['kind'] == 'sparse-regions' and statuses[-1] == -2:
        keep = np.ones(len(case['bkpt']), dtype=bool)
        for a_, b_ in case['regions']:
            keep[a_ + 1:b_ + 1] = False
        twit = np.array(case['bkpt'], dtype='f8')[keep]
        sv = np.linalg.svd(bslib.design(twit, case['nord'], x, 'left') * np.sqrt(w)[:, None], compute_uv=False)
        if sv[-1] > 0 and sv[0] / sv[-1] < 1e4:
            note_label('give-up-judged-against-witness')
            with judge('failure-report'):
                check(False, 'ill:gives-up-although-dropping-the-breakpoints-inside-the-thin-regions-leaves-a-well-posed-fit',
                      lambda: dict(statuses=statuses, masked=np.flatnonzero(~mk).tolist(), regions=case['regions'], nord=case['nord'], witness_cond=float(sv[0] / sv[-1])))
    with judge('refit-converges'):
        if case['how'] == 'refit':
            check(statuses[-1] != -1, 'ill:masking-never-converges', lambda: dict(statuses=statuses))
    for s in set(statuses):
        note_label('status:%d' % s)


def ill_classify(case):
    return ['kind:' + case['kind'], 'how:' + case['how'], 'nord:%d' % case['nord']]


def ill_nontrivial(case, labels):
    return any(l.startswith('status:-') for l in labels) or 'breakpoints-masked' in labels


SUBCHECKS = [
    SubCheck('fit_optimality', fit_body, strategy=fit_case, classify=fit_classify, nontrivial=fit_nontrivial,
             quick=3200, thorough=100000, shards=(16, 16), floor=0.01,
             doc='fit() vs dense weighted lstsq on the independent basis; polynomial reproduction; zero-weight invariance; linearity'),
    SubCheck('cholesky_spd', spd_body, strategy=spd_case, nontrivial=lambda c, l: c['bw'] >= 2 and c['n'] > c['bw'],
             classify=lambda c: ['bw:%d' % c['bw'], 'n>bw' if c['n'] > c['bw'] else 'n<=bw'], quick=1500, thorough=60000, shards=(2, 16),
             doc='cholesky_band / cholesky_solve on SPD banded matrices'),
    SubCheck('cholesky_signals_failure', bad_body, strategy=bad_case, nontrivial=lambda c, l: 'failure-not-at-index-0' in l,
             classify=lambda c: ['kind:' + c['kind'], 'bw:%d' % c['base']['bw']], quick=1500, thorough=60000, shards=(2, 16),
             doc='indefinite / non-positive / below-mininf / NaN / inf matrices are signalled through the return value'),
    SubCheck('ill_posed_fits', ill_body, strategy=ill_case, classify=ill_classify, nontrivial=ill_nontrivial,
             quick=4000, thorough=60000, shards=(12, 16), floor=0.01,
             doc='gaps, islands, zero-weight runs, too few points: status code + breakpoint mask, never an exception or non-finite coefficients'),
]
