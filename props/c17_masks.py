"""C17 -- rejection, mask interpolation and sky masking act on exactly the intended pixels."""
import numpy as np
from hypothesis import strategies as st

from vk import SubCheck, Violation, call, judge, check, note_label

PROPERTY = 'C17'
LEVEL = 'exploration'
RULE = ('five Hypothesis sub-checks.  djs_reject: data/model 1-D 5-80 (2-D for grow=0), inmask, previous outmask, sigma (scalar or array) or invvar '
        '(with zeros), any subset of lower/upper/maxdev, sticky, grow 0-3; residuals are generated as multiples (1 +- >= 1e-3) of the limits so no '
        'point sits on a limit; oracle by definition with a MUST/MAY band (whether already-excluded points seed growth) and qdone == (new mask '
        '== supplied mask).  djs_median(boundary=reflect) vs scipy.ndimage.median_filter(mode=reflect) 1-D/2-D odd widths.  djs_maskinterp: '
        '1-3-D, every axis (IDL numbering), with/without distinct unsorted xval, const both: unmasked samples unchanged, masked == numpy.interp '
        'over the good samples of the line (ends held), single good sample -> that value, none/all good -> unchanged.  aesthetics (traditional, '
        'noconst, mean, nothing): flux unchanged where ivar != 0.  skymask: mask dtype int16/int32/int64/uint64, BADSKYCHI/REDMONSTER on '
        'harness-chosen bits representable in that dtype, other bits set at random, ngrow 0-4: result == invvar x (no flagged pixel within ngrow along '
        'the row).  Non-trivial: rejected point next to a good one with grow >= 1; masked run touching an array end; flagged pixel within ngrow of a row end.')
RULE += '  Also: integer and float32 data for djs_maskinterp, residuals exactly on maxdev (quantised data), zero limits, tiny positive ivar for aesthetics.'
RULE += ' Round 5: negative mask flag values for djs_maskinterp.'
ASSUMPTIONS = ['djs_reject: maxrej/groupsize/groupdim/groupbadpix are not part of the statement and not generated; sigma or invvar is always supplied; a scalar sigma is > 0, a sigma array may contain exact zeros (zero-width band)',
               'xval values are distinct within a line',
               'the SPPIXMASK bit table is installed by the harness per case (bits below the sign bit of the mask dtype)',
               'median widths are odd; 1-D: up to 2n-1 (what one reflection of the array covers), 2-D: up to 2 x the smaller axis - 1']

uf = st.floats(-1.0, 1.0, allow_nan=False)


# ------------------------------------------------------------------ djs_reject
@st.composite
def reject_case(draw):
    grow = draw(st.sampled_from([1, 0, 2, 3, 0]))
    two_d = grow == 0 and draw(st.integers(0, 3)) == 0
    shape = [draw(st.integers(2, 8)), draw(st.integers(3, 10))] if two_d else [draw(st.integers(5, 80))]
    n = int(np.prod(shape))
    wkind = draw(st.sampled_from(['invvar', 'sigma-array', 'sigma-scalar']))
    both = draw(st.sampled_from([0, 0, 1, 2]))
    lims = draw(st.sampled_from([['lower', 'upper'], ['upper'], ['lower'], ['maxdev'], ['lower', 'upper', 'maxdev'], []]))
    # a limit of exactly 0 is legal: everything on that side of the model is beyond it
    lower = draw(st.one_of(st.sampled_from([0, 0.0]), uf.map(lambda v: 2 + 3 * 0.5 * (1 + v)), uf.map(lambda v: 2 + 3 * 0.5 * (1 + v)), uf.map(lambda v: 2 + 3 * 0.5 * (1 + v))))
    upper = draw(st.one_of(st.sampled_from([0, 0.0]), uf.map(lambda v: 2 + 3 * 0.5 * (1 + v)), uf.map(lambda v: 2 + 3 * 0.5 * (1 + v)), uf.map(lambda v: 2 + 3 * 0.5 * (1 + v))))
    maxdev = 10 ** draw(st.sampled_from([0.0, 1.0, -1.0]))
    # per point: which way it deviates and by which factor of the relevant limit
    dev = [draw(st.sampled_from(['in', 'in', 'in', 'in', 'hi', 'lo', 'edge-hi-in', 'edge-hi-out', 'edge-lo-in', 'edge-lo-out'])) for _ in range(n)]
    frac = [0.5 * (1 + draw(uf)) for _ in range(n)]
    inmask = draw(st.sampled_from([None, 'some', 'some']))
    prev = draw(st.sampled_from([None, 'some', 'some']))
    return dict(shape=shape, grow=grow, wkind=wkind, both=both, lims=lims, lower=lower, upper=upper, maxdev=maxdev, dev=dev, frac=frac,
                inmask=None if inmask is None else [draw(st.integers(0, 5)) != 0 for _ in range(n)],
                prev=None if prev is None else [draw(st.integers(0, 5)) != 0 for _ in range(n)],
                sticky=draw(st.booleans()), zero_w=[draw(st.integers(0, 7)) == 0 for _ in range(n)], seed=draw(st.integers(0, 999)),
                quantised=draw(st.booleans()), counts=draw(st.booleans()), int_outmask=draw(st.sampled_from([False, False, True])))


def dilate(mask, k):
    out = mask.copy()
    for s in range(1, k + 1):
        out[s:] |= mask[:-s]
        out[:-s] |= mask[s:]
    return out


def reject_body(case):
    from pydl.pydlutils.math import djs_reject
    shape = tuple(case['shape'])
    n = int(np.prod(shape))
    idx = np.arange(n)
    model = np.sin(idx * 0.3 + case['seed'])
    sigv = 0.5 + 0.4 * np.abs(np.cos(idx * 1.1 + case['seed']))
    if case['wkind'] == 'sigma-scalar':
        sigv = np.full(n, 0.7)
    sig0 = np.zeros(n, dtype=bool)
    if case['wkind'] == 'sigma-array':
        # a supplied sigma of exactly 0 is a zero-width band: any non-zero residual on the limited side is beyond the limit
        sig0 = np.array(case['zero_w'])
    weightless = np.zeros(n, dtype=bool)
    if case['wkind'] == 'invvar':
        weightless = np.array(case['zero_w'])
    lims = case['lims']
    lower, upper, maxdev = case['lower'], case['upper'], case['maxdev']
    diff = np.zeros(n)
    bad = np.zeros(n, dtype=bool)
    for i in range(n):
        d, f = case['dev'][i], case['frac'][i]
        s = sigv[i]
        if sig0[i]:
            sigv[i] = 0.0
            if d == 'in':
                diff[i] = 0.0
            else:
                pos = d in ('hi', 'edge-hi-out', 'edge-hi-in')
                diff[i] = (0.01 + f) * (1 if pos else -1) * (0.5 if 'maxdev' not in lims else 0.5 * maxdev)
                bad[i] = ('upper' in lims) if pos else ('lower' in lims)
            continue
        up_lim = min([upper * s] * ('upper' in lims) + [maxdev] * ('maxdev' in lims) + [np.inf])
        lo_lim = min([lower * s] * ('lower' in lims) + [maxdev] * ('maxdev' in lims) + [np.inf])
        if d == 'in':
            lim = min(up_lim, lo_lim, 5 * s)
            diff[i] = (2 * f - 1) * 0.9 * lim
        elif d in ('hi', 'edge-hi-out', 'edge-hi-in'):
            fac = {'hi': 1.5 + 3 * f, 'edge-hi-out': 1 + 1e-3 + 1e-2 * f, 'edge-hi-in': 1 - 1e-3 - 1e-2 * f}[d]
            if np.isfinite(up_lim):
                diff[i] = fac * up_lim if up_lim > 0 else ((0.01 + f) * s if fac > 1 else 0.0)
                bad[i] = fac > 1
            else:
                diff[i] = 4 * s * f
        else:
            fac = {'lo': 1.5 + 3 * f, 'edge-lo-out': 1 + 1e-3 + 1e-2 * f, 'edge-lo-in': 1 - 1e-3 - 1e-2 * f}[d]
            if np.isfinite(lo_lim):
                diff[i] = -fac * lo_lim if lo_lim > 0 else (-(0.01 + f) * s if fac > 1 else 0.0)
                bad[i] = fac > 1
            else:
                diff[i] = -4 * s * f
    # points without weight can only be rejected through maxdev
    for i in range(n):
        if weightless[i]:
            bad[i] = 'maxdev' in lims and abs(diff[i]) > maxdev
    if case.get('quantised') and lims == ['maxdev'] and maxdev >= 1.0:
        # quantised data (counts, a 1/8 grid): residuals land exactly on the absolute limit, which they do not exceed
        model = np.round(model * 8) / 8
        for i in range(n):
            d = case['dev'][i]
            sgn = -1.0 if 'lo' in d else 1.0
            diff[i] = {'in': 0.5 * maxdev, 'hi': 2.0 * maxdev, 'lo': 2.0 * maxdev}.get(d, maxdev) * sgn       # the edge kinds sit exactly on the limit
            bad[i] = d in ('hi', 'lo')
        note_label('residual-exactly-on-maxdev')
        if case.get('counts'):
            # the same with photon counts: integer data and an integer-valued model, residuals 0, +-maxdev, +-2 maxdev
            model = np.round(model * 4)
            diff = np.where(np.abs(diff) == 0.5 * maxdev, 0.0, diff)
    data = (model + diff).reshape(shape)
    model = model.reshape(shape)
    if case.get('quantised') and case.get('counts') and lims == ['maxdev'] and maxdev >= 1.0:
        data = data.astype('i4')
        note_label('integer-data')
    kw = dict(grow=case['grow'], sticky=case['sticky'])
    if 'lower' in lims:
        kw['lower'] = lower
    if 'upper' in lims:
        kw['upper'] = upper
    if 'maxdev' in lims:
        kw['maxdev'] = maxdev
    if case['wkind'] == 'invvar':
        iv = 1.0 / sigv ** 2
        iv[weightless] = 0.0
        kw['invvar'] = iv.reshape(shape)
    elif case['wkind'] == 'sigma-array':
        kw['sigma'] = sigv.reshape(shape)
    else:
        kw['sigma'] = 0.7
    if case['wkind'] != 'invvar' and case.get('both'):
        # "If both sigma and invvar are set, invvar is ignored": an inverse variance that tells another story (errors 4x smaller or
        # 3x larger, some weights zero) next to the sigma
        kw['invvar'] = (np.where(idx % 5 == 0, 0.0, (16.0 if case['both'] == 1 else 1 / 9.0) / np.maximum(sigv, 0.1) ** 2)).reshape(shape)
        note_label('sigma-and-invvar')
    inmask = None if case['inmask'] is None else np.array(case['inmask'], dtype=bool)
    prev = None if case['prev'] is None else np.array(case['prev'], dtype=bool)
    if inmask is not None:
        kw['inmask'] = inmask.reshape(shape)
    if prev is not None:
        # the mask of a previous pass, as returned (boolean) or kept by the caller as a 0/1 integer array
        kw['outmask'] = prev.reshape(shape).copy() if not case.get('int_outmask') else prev.reshape(shape).astype('i4')
    got, qdone = call(djs_reject, data, model, **kw)
    excluded = np.zeros(n, dtype=bool)
    if inmask is not None:
        excluded |= ~inmask
    if case['sticky'] and prev is not None:
        excluded |= ~prev
    newbad = bad & ~excluded
    must = excluded | newbad | dilate(newbad, case['grow'])
    may = must | dilate(excluded | bad, case['grow'])
    with judge('djs_reject'):
        got = np.asarray(got)
        check(got.shape == shape, 'reject:mask-shape', lambda: dict(got=got.shape))
        rej = ~got.astype(bool).ravel()
        miss = must & ~rej
        extra = rej & ~may
        check(not miss.any(), 'reject:point-not-rejected', lambda: dict(index=np.nonzero(miss)[0].tolist()[:6], grow=case['grow'], sticky=case['sticky'],
                                                                       excluded=np.nonzero(excluded)[0].tolist()[:8], bad=np.nonzero(newbad)[0].tolist()[:8], n=n))
        check(not extra.any(), 'reject:good-point-rejected', lambda: dict(index=np.nonzero(extra)[0].tolist()[:6], grow=case['grow'], sticky=case['sticky'],
                                                                         lims=lims, wkind=case['wkind']))
        # "neighbours of every rejected point": either the points found beyond the limits in this call (what the routine does, as the IDL original),
        # or also the points that were excluded on entry - but one reading throughout, not neighbours of some excluded points only
        reading_b = dilate(excluded | bad, case['grow'])
        check(bool(np.array_equal(rej, must)) or bool(np.array_equal(rej, reading_b)), 'reject:neighbours-of-some-excluded-points-only',
              lambda: dict(rejected=np.nonzero(rej)[0].tolist()[:12], reading_a=np.nonzero(must)[0].tolist()[:12], reading_b=np.nonzero(reading_b)[0].tolist()[:12],
                           grow=case['grow'], sticky=case['sticky']))
        base = np.ones(n, dtype=bool) if prev is None else prev
        want_done = bool(np.array_equal(~rej, base))
        check(isinstance(qdone, (bool, np.bool_)) and bool(qdone) == want_done, 'reject:qdone-wrong', lambda: dict(got=repr(qdone), want=want_done))
    if case['grow'] >= 1 and newbad.any() and (dilate(newbad, 1) & ~newbad & ~excluded).any():
        note_label('grow-next-to-good')
    if newbad.any():
        note_label('something-rejected')


def reject_classify(case):
    return ['grow:%d' % case['grow'], 'w:' + case['wkind'], 'zero-limit' if (case['lower'] == 0 and 'lower' in case['lims']) or (case['upper'] == 0 and 'upper' in case['lims']) else 'positive-limits', 'lims:' + '+'.join(case['lims'] or ['none']), 'sticky' if case['sticky'] else 'not-sticky',
            '%dd' % len(case['shape'])]


# ------------------------------------------------------------------ reflecting median
@st.composite
def median_case(draw):
    if draw(st.booleans()):
        shape = [draw(st.integers(2, 40))]
        # one reflection of the array covers every window up to width 2n - 1
        w = draw(st.sampled_from([x for x in range(3, 2 * shape[0], 2)] + [2 * shape[0] - 1, 2 * shape[0] - 1]))
    else:
        shape = [draw(st.integers(3, 12)), draw(st.integers(3, 12))]
        # (round 12: as in 1-D, one reflection covers every window up to 2 x the smaller axis - 1, also windows wider than the larger axis)
        w = draw(st.sampled_from([x for x in range(3, 2 * min(shape), 2)] or [3]))
    vals = [float(draw(st.integers(-5, 5))) if draw(st.booleans()) else 10 * draw(uf) for _ in range(int(np.prod(shape)))]
    return dict(shape=shape, width=w, vals=vals)


def median_body(case):
    from scipy.ndimage import median_filter
    from pydl.pydlutils.math import djs_median
    a = np.array(case['vals'], dtype='f8').reshape(case['shape'])
    got = call(djs_median, a.copy(), width=case['width'], boundary='reflect')
    want = median_filter(a, size=case['width'], mode='reflect')
    with judge('djs_median'):
        got = np.asarray(got)
        check(got.shape == a.shape, 'median-reflect:shape')
        check(bool(np.array_equal(got, want)), 'median-reflect:differs-from-reflecting-median-filter',
              lambda: dict(where=np.argwhere(got != want)[0].tolist(), width=case['width'], shape=case['shape']))


# ------------------------------------------------------------------ djs_maskinterp
@st.composite
def interp_case(draw):
    ndim = draw(st.sampled_from([1, 2, 3, 2]))
    shape = [draw(st.integers(2, 12))] if ndim == 1 else [draw(st.integers(1, 5)) for _ in range(ndim - 1)] + [draw(st.integers(2, 10))]
    shape = list(draw(st.permutations(shape)))
    n = int(np.prod(shape))
    axis = draw(st.integers(0, ndim - 1))
    mk = draw(st.sampled_from(['runs', 'random', 'ends', 'all', 'none', 'one-good']))
    mask = [draw(st.integers(0, 2)) == 0 for _ in range(n)]
    return dict(shape=shape, axis=axis, mk=mk, mask=mask, vals=[10 * draw(uf) for _ in range(n)], xval=draw(st.sampled_from([None, 'unsorted', 'descending', 'ascending'])),
                xs=[draw(uf) for _ in range(n)], const=draw(st.booleans()), mask_dtype=draw(st.sampled_from(['bool', 'i4'])),
                ydtype=draw(st.sampled_from(['f8', 'f8', 'f4', 'i4', 'i2'])), maskval=draw(st.sampled_from([1, -1, 7, -2147483648])))


def interp_body(case):
    from pydl.pydlutils.image import djs_maskinterp
    shape = tuple(case['shape'])
    ndim = len(shape)
    ydt = case.get('ydtype', 'f8')
    # counts (integer images) and single-precision spectra too; the reference works on the same values in double precision
    yin = np.round(np.array(case['vals']) * 3).astype(ydt).reshape(shape) if ydt[0] == 'i' else np.array(case['vals'], dtype=ydt).reshape(shape)
    y = yin.astype('f8')
    m = np.array(case['mask'], dtype=bool).reshape(shape)
    npax = ndim - 1 - case['axis']          # IDL axis numbering
    L = shape[npax]
    mm = np.moveaxis(m, npax, -1)
    if case['mk'] == 'all':
        mm[...] = True
    elif case['mk'] == 'none':
        mm[...] = False
    elif case['mk'] == 'ends':
        mm[..., 0] = True
        mm[..., -1] = True
    elif case['mk'] == 'one-good':
        mm[...] = True
        mm[..., L // 2] = False
    elif case['mk'] == 'runs':
        mm[..., :] = False
        mm[..., 1:max(2, L // 2)] = True
    m = np.ascontiguousarray(np.moveaxis(mm, -1, npax))
    x = None
    if case['xval']:
        base = np.arange(L, dtype='f8')
        xx = np.zeros(shape)
        xv = np.moveaxis(xx, npax, -1)
        jit = np.moveaxis(np.array(case['xs']).reshape(shape), npax, -1)
        if case['xval'] == 'ascending':
            xv[...] = base + 0.3 * jit
        elif case['xval'] == 'descending':
            xv[...] = -(base + 0.3 * jit)
        else:
            perm = np.argsort(jit, axis=-1)
            xv[...] = np.take_along_axis(np.broadcast_to(base, xv.shape) + 0.0, perm, axis=-1) + 0.3 * jit
        x = np.ascontiguousarray(np.moveaxis(xv, -1, npax))
    marg = m if case['mask_dtype'] == 'bool' else m.astype('i4') * case.get('maskval', 1)        # any non-zero value flags a sample
    kw = dict(const=case['const'])
    if ndim > 1:
        kw['axis'] = case['axis']
    if x is not None:
        kw['xval'] = x.copy()
    keep = yin.copy()
    got = call(djs_maskinterp, yin, marg, **kw)
    want = y.copy()
    wv, yv, mv = np.moveaxis(want, npax, -1), np.moveaxis(y, npax, -1), np.moveaxis(m, npax, -1)
    xvv = np.moveaxis(x, npax, -1) if x is not None else None
    for I in np.ndindex(wv.shape[:-1]):
        good = ~mv[I]
        if good.all() or not good.any():
            continue
        if good.sum() == 1:
            wv[I] = yv[I][good][0]
            continue
        xl = xvv[I] if xvv is not None else np.arange(L, dtype='f8')
        o = np.argsort(xl[good])
        wv[I][~good] = np.interp(xl[~good], xl[good][o], yv[I][good][o])
    with judge('djs_maskinterp'):
        got = np.asarray(got, dtype='f8')
        check(got.shape == shape, 'maskinterp:shape', lambda: dict(got=got.shape))
        um = ~m & ~np.moveaxis(np.broadcast_to((~mv).sum(-1, keepdims=True) == 1, mv.shape), -1, npax)
        check(bool(np.array_equal(got[um], y[um])), 'maskinterp:unmasked-sample-changed', lambda: dict(where=np.argwhere((got != y) & um)[0].tolist()))
        dev = np.abs(got - want)
        check(bool(np.all(dev <= (2e-6 if ydt == 'f4' else 1e-12) * max(1.0, np.abs(y).max()))), 'maskinterp:masked-sample-not-linear-interpolation',
              lambda: dict(where=np.argwhere(dev == dev.max())[0].tolist(), got=float(got.ravel()[dev.argmax()]), want=float(want.ravel()[dev.argmax()]),
                           axis=case['axis'], xval=case['xval'], const=case['const'], shape=case['shape']))
        check(np.array_equal(yin, keep), 'maskinterp:input-modified')
    if mv[..., 0].any() or mv[..., -1].any():
        note_label('masked-run-touches-end')


def interp_classify(case):
    return ['ndim:%d' % len(case['shape']), 'axis:%d' % case['axis'], 'mask:' + case['mk'], 'xval:%s' % case['xval'], 'const' if case['const'] else 'noconst', 'ydtype:' + case.get('ydtype', 'f8')]


# ------------------------------------------------------------------ aesthetics
@st.composite
def aes_case(draw):
    n = draw(st.integers(3, 60))
    return dict(flux=[10 * draw(uf) for _ in range(n)], zero=[draw(st.integers(0, 3)) == 0 for _ in range(n)], method=draw(st.sampled_from(['traditional', 'noconst', 'mean', 'nothing'])), tiny=draw(st.sampled_from([1e-10, 2.0, 1e-30, 5e-9])),
                allzero=draw(st.integers(0, 12)) == 0)


def aes_body(case):
    from pydl.pydlspec2d.spec2d import aesthetics
    f = np.array(case['flux'], dtype='f8')
    iv = np.where(np.array(case['zero']), 0.0, 2.0)
    iv[1::3] = np.where(iv[1::3] > 0, case.get('tiny', 2.0), 0.0)       # some good pixels carry a tiny but non-zero inverse variance
    if case['allzero']:
        iv[:] = 0
    keep = f.copy()
    out = call(aesthetics, f, iv, method=case['method'])
    with judge('aesthetics'):
        out = np.asarray(out, dtype='f8')
        check(out.shape == f.shape, 'aesthetics:shape')
        g = iv != 0
        check(bool(np.array_equal(out[g], keep[g])), 'aesthetics:flux-changed-where-ivar-nonzero', lambda: dict(method=case['method'], where=np.nonzero((out != keep) & g)[0].tolist()[:5]))
        check(bool(np.all(np.isfinite(out))), 'aesthetics:non-finite', lambda: dict(method=case['method']))
        check(np.array_equal(f, keep), 'aesthetics:input-modified')


# ------------------------------------------------------------------ skymask
BITS = {'i2': 14, 'i4': 30, 'i8': 62, 'u8': 63}


@st.composite
def sky_case(draw):
    dt = draw(st.sampled_from(['i4', 'i2', 'i8', 'u8']))
    top = BITS[dt]
    b1 = draw(st.one_of(st.integers(0, top), st.sampled_from([top, 27 if top >= 27 else top])))
    b2 = draw(st.integers(0, top).filter(lambda b: b != b1))
    if draw(st.integers(0, 5)) == 0:
        # the bit numbers of the real SPPIXMASK definition, whatever the width of the mask (D49): a 16-bit mask cannot carry them
        dt = draw(st.sampled_from(['i2', 'u2', 'i4', 'i8', 'u8', 'u4']))
        b1, b2 = 27, 28
    nrow, npix = draw(st.integers(1, 4)), draw(st.integers(3, 30))
    big = draw(st.integers(0, 9)) == 0          # a wide growth radius on a spectrum-sized row
    if big:
        npix = draw(st.integers(280, 400))
    flags = []
    for _ in range(draw(st.integers(0, 6))):
        flags.append([draw(st.integers(0, nrow - 1)), draw(st.sampled_from([0, 1, npix - 1, npix - 2, npix // 2])) if draw(st.booleans()) else draw(st.integers(0, npix - 1)),
                      draw(st.sampled_from(['sky', 'red', 'both']))])
    other = [[draw(st.integers(0, nrow - 1)), draw(st.integers(0, npix - 1)), draw(st.integers(0, top))] for _ in range(draw(st.integers(0, 8)))]
    if draw(st.booleans()):
        # an unrelated flag on the highest bit of the mask type (the sign bit of a signed mask: the pixel value is negative)
        other.append([draw(st.integers(0, nrow - 1)), draw(st.integers(0, npix - 1)), 8 * int(dt[1]) - 1])
    return dict(dtype=dt, b1=b1, b2=b2, nrow=nrow, npix=npix, flags=flags, other=other, ngrow=draw(st.sampled_from([2, 0, 1, 3, 4])) if not big else draw(st.sampled_from([128, 127, 150, 64])),
                with_ormask=draw(st.sampled_from([True, True, True, False])), sign_on_flags=draw(st.sampled_from([False, False, True])),
                and_flags=[[draw(st.integers(0, nrow - 1)), draw(st.integers(0, npix - 1))] for _ in range(draw(st.sampled_from([0, 0, 1, 3])))])


def sky_body(case):
    import pydl.pydlutils.sdss as S
    from pydl.pydlspec2d.spec1d import skymask
    table = {'NOPLUG': 0, 'NODATA': 1, 'COMBINEREJ': 2, 'BADSKYCHI': case['b1'], 'REDMONSTER': case['b2']}
    saved = S.maskbits
    S.maskbits = {'SPPIXMASK': table}
    try:
        nrow, npix = case['nrow'], case['npix']
        dt = np.dtype(case['dtype'])
        om = np.zeros((nrow, npix), dtype=dt)
        flagged = np.zeros((nrow, npix), dtype=bool)
        width = 8 * dt.itemsize
        for r, c, k, in case['other']:
            if k not in (case['b1'], case['b2']) and k < width:
                om[r, c] |= dt.type(1 << k) if dt.kind == 'u' or k < width - 1 else np.iinfo(dt).min
        for r, c, what in case['flags']:
            if max(case['b1'], case['b2']) >= width:
                continue            # the mask type has no such bits: nothing can be flagged
            if what in ('sky', 'both'):
                om[r, c] |= dt.type(1 << case['b1']) if dt.kind == 'u' or case['b1'] < width - 1 else np.iinfo(dt).min
            if what in ('red', 'both'):
                om[r, c] |= dt.type(1 << case['b2']) if dt.kind == 'u' or case['b2'] < width - 1 else np.iinfo(dt).min
            if case.get('sign_on_flags') and dt.kind == 'i':
                om[r, c] |= np.iinfo(dt).min          # the highest bit of a signed mask is a flag like any other: these pixel values are negative
            flagged[r, c] = True
        if max(case['b1'], case['b2']) >= width:
            note_label('mask-narrower-than-flags')
        iv = 1.0 + np.arange(nrow * npix, dtype='f8').reshape(nrow, npix) % 7
        am = np.zeros_like(om)
        # the "and" mask is documented as ignored: flags in it (and only in it) mark nothing
        for r, c in case.get('and_flags', []):
            if max(case['b1'], case['b2']) < width - 1:
                am[r, c] |= dt.type((1 << case['b1']) | (1 << case['b2']))
                note_label('flags-in-andmask')
        keep = iv.copy()
        if case['with_ormask']:
            got = call(skymask, iv, am, om, ngrow=case['ngrow'])
        else:
            got = call(skymask, iv, am, ngrow=case['ngrow'])
            flagged[:] = False
        k = case['ngrow']
        near = flagged.copy()
        for s in range(1, k + 1):
            near[:, s:] |= flagged[:, :-s]
            near[:, :-s] |= flagged[:, s:]
        want = iv * (~near)
        with judge('skymask'):
            got = np.asarray(got, dtype='f8')
            check(got.shape == iv.shape, 'skymask:shape')
            check(bool(np.array_equal(got, want)), 'skymask:wrong-pixels-zeroed',
                  lambda: dict(where=np.argwhere(got != want)[0].tolist(), dtype=case['dtype'], ngrow=k, bits=[case['b1'], case['b2']], flagged=np.argwhere(flagged).tolist()[:6]))
            check(np.array_equal(iv, keep), 'skymask:input-modified')
        if any(c - k <= 0 or c + k >= npix - 1 for r, c, w in case['flags']) and case['with_ormask'] and case['flags']:
            note_label('flag-near-row-end')
    finally:
        S.maskbits = saved


def sky_classify(case):
    return ['dtype:' + case['dtype'], 'ngrow:%d' % case['ngrow'], 'flags:%d' % min(len(case['flags']), 3), 'ormask' if case['with_ormask'] else 'no-ormask']


SUBCHECKS = [
    SubCheck('djs_reject', reject_body, strategy=reject_case, classify=reject_classify, nontrivial=lambda c, l: 'grow-next-to-good' in l,
             quick=3000, thorough=150000, shards=(8, 16), floor=0.02, doc='rejection by limits, inmask, sticky, grow; qdone'),
    SubCheck('median_reflect', median_body, strategy=median_case, classify=lambda c: ['%dd' % len(c['shape']), 'width:%d' % c['width']],
             nontrivial=lambda c, l: c['width'] >= 3, quick=1500, thorough=60000, shards=(2, 16), doc='djs_median(boundary=reflect) vs scipy.ndimage.median_filter'),
    SubCheck('djs_maskinterp', interp_body, strategy=interp_case, classify=interp_classify, nontrivial=lambda c, l: 'masked-run-touches-end' in l,
             quick=3000, thorough=150000, shards=(6, 16), doc='1-3-D mask interpolation along every axis, with and without xval'),
    SubCheck('aesthetics', aes_body, strategy=aes_case, classify=lambda c: ['method:' + c['method'], 'all-zero' if c['allzero'] else 'some-good'],
             nontrivial=lambda c, l: any(c['zero']) and not all(c['zero']), quick=1500, thorough=40000, shards=(1, 8), doc='flux unchanged where ivar != 0'),
    SubCheck('skymask', sky_body, strategy=sky_case, classify=sky_classify, nontrivial=lambda c, l: 'flag-near-row-end' in l,
             quick=2500, thorough=100000, shards=(4, 16), doc='BADSKYCHI / REDMONSTER growth for int16/int32/int64/uint64 masks'),
]
