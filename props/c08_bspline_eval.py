"""C08 -- B-spline evaluation equals the Cox-de Boor spline of its knots and coefficients."""
import math

import numpy as np
from hypothesis import strategies as st

from vk import SubCheck, Violation, call, judge, check, note_label
from props import bslib

PROPERTY = 'C08'
LEVEL = 'exploration'
RULE = ('Hypothesis constructions: data abscissae (5-120 values; uniform / clustered / with duplicates; sorted or shuffled), order 1-6, '
        'one breakpoint option (explicit bkpt 2-12 values inside or slightly outside the data range; placed 0-12 values some outside; '
        'bkspace 10^U(-1.5,1.5) x range; nbkpts 0-20; everyn 1..nx/2), bkspread 1 or U(0.5,2), random coefficient vector, 1-60 '
        'evaluation points inside the breakpoint range, exactly on knots and end points, and up to 10 % outside, in arbitrary order.  '
        'Oracle: knot-vector structure; value() vs an independent Cox-de Boor evaluation (either one-sided limit at a knot of a '
        'discontinuous spline); basis non-negative and summing to one; mask == inside the breakpoint range.  Non-trivial = order >= 2, '
        'unsorted evaluation points hitting >= 3 distinct intervals.')
RULE += '  Also: float32 evaluation points, abscissae near 9000 with closely spaced breakpoints, unsorted data with everyn, a second evaluation on the same object.'
RULE += ' Round 11: explicit / placed positions whose lowest or highest value is repeated strictly inside the data range.'
RULE += ' Round 5: repeated interior values with everyn; spacings that divide the data range exactly (breakpoint count asserted).'
ASSUMPTIONS = ['explicit / placed breakpoints are increasing (repeats only of the lowest / highest value) and data ranges are positive (>= 2 distinct breakpoints result); everyn <= nx/2 '
               'with sorted data that are distinct in single precision (the breakpoints are stored as float32), as iterfit passes them',
               'values outside the breakpoint range are not asserted (only the mask is): pydl extrapolates the end polynomial there',
               'coverage of the data range is asserted to float32 rounding (2^-22 x max|x|), as the statement says',
               'value tolerance 1e-9 x (1 + max|coeff|)']

uf = st.floats(-1.0, 1.0, allow_nan=False)


def setup():
    bslib.selfcheck()


@st.composite
def case_strategy(draw):
    nx = draw(st.integers(5, 120))
    lo = draw(st.sampled_from([0.0, -5.0, 3.5, 1000.0, -0.001, 9000.0]))
    span = draw(st.sampled_from([1.0, 10.0, 0.01, 250.0]))
    if lo == 9000.0:
        span = 4.0          # wavelength-like abscissae: a large offset and (below) breakpoints much closer than |x| * float32 eps * 1e3
    fam = draw(st.sampled_from(['uniform', 'clustered', 'duplicates', 'grid']))
    if fam == 'grid':
        x = [lo + span * i / (nx - 1) for i in range(nx)]
    else:
        x = []
        for _ in range(nx):
            u = draw(uf)
            if fam == 'clustered':
                u = u ** 3
            x.append(lo + span * 0.5 * (1 + u))
        if fam == 'duplicates':
            x = [x[i // 2 * 2 % nx] for i in range(nx)]
    x[0], x[-1] = lo, lo + span          # the data range is exactly [lo, lo+span]
    nord = draw(st.integers(1, 6))
    opt = draw(st.sampled_from(['bkpt', 'placed', 'bkspace', 'nbkpts', 'everyn']))
    kw = {}
    if opt == 'bkpt':
        nb = draw(st.integers(2, 12))
        vals = sorted(set(lo + span * (0.5 * (1 + draw(uf)) * 1.1 - 0.05) for _ in range(nb)))
        if len(vals) < 2:
            vals = [lo, lo + span]
        kw['bkpt'] = vals
    elif opt == 'placed':
        nb = draw(st.integers(0, 12))
        kw['placed'] = sorted(set(lo + span * (0.5 * (1 + draw(uf)) * 1.4 - 0.2) for _ in range(nb)))
    if opt == 'placed' and len(kw['placed']) >= 3 and draw(st.booleans()):
        # positions exactly on the data ends (placed = linspace(min, max, k)): they are inside the range, not outside (D51)
        kw['placed'] = sorted(set([lo] + kw['placed'][1:-1] + [lo + span]))
    bk_int = False
    dup_ends = False
    if opt in ('bkpt', 'placed') and draw(st.integers(0, 3)) == 0:
        # round 11: the lowest / highest supplied position occurs more than once and lies strictly inside the data range (two fibres'
        # breakpoint lists concatenated): the copy next to the data end is the one that moves onto it, the knots stay in order
        inner_ = [v for v in kw[opt] if lo + 0.02 * span < v < lo + 0.98 * span]
        if len(inner_) >= 2:
            which = draw(st.sampled_from(['low', 'high', 'both']))
            rep = draw(st.integers(1, 2))
            kw[opt] = ([inner_[0]] * rep if which != 'high' else []) + inner_ + ([inner_[-1]] * rep if which != 'low' else [])
            dup_ends = True
    if dup_ends:
        pass
    elif opt in ('bkpt', 'placed') and span >= 10 and draw(st.integers(0, 2)) == 0:
        # whole-number breakpoints held in an integer array (np.arange(0, 101, 10)); the data ends are not whole numbers (D44)
        bk_int = True
        iv = sorted(set(int(round(v)) for v in kw[opt]))
        if opt == 'bkpt' and len(iv) < 2:
            iv = [int(math.floor(lo)) + 1, int(math.floor(lo + span))]
        kw[opt] = iv
    elif opt == 'bkspace':
        # any spacing, or one that divides the data range exactly (0.1 into 1, 0.4 into 10, ...)
        kw['bkspace'] = span * 10 ** (draw(st.integers(-15, 15)) / 10.0) if draw(st.booleans()) else span / draw(st.sampled_from([10, 5, 25, 3, 4, 8, 20, 12, 7]))
    elif opt == 'nbkpts':
        kw['nbkpts'] = draw(st.integers(0, 20))
    else:
        # everyn takes its breakpoints from the data and stores them in single precision: the data must be distinct there too
        seen, xd = set(), []
        for v in sorted(set(x)):
            k = float(np.float32(v))
            if k not in seen:
                seen.add(k)
                xd.append(v)
        x = xd
        if len(x) < 4:
            x = [lo + span * i / 5 for i in range(6)]
        kw['everyn'] = draw(st.integers(1, max(1, len(x) // 2)))
        if kw['everyn'] >= 3 and len(x) >= 8 and draw(st.booleans()):
            # some interior values occur twice (two exposures on one grid); fewer repeats than the step between breakpoints,
            # so the breakpoints stay distinct, and none at the extremes
            xs_ = sorted(x)
            for j in draw(st.lists(st.integers(2, len(xs_) - 3), min_size=1, max_size=4, unique=True)):
                xs_.append(xs_[j])
            x = sorted(xs_)
            kw['everyn'] = min(kw['everyn'], len(x) // 2)
        if draw(st.integers(0, 3)) == 0:
            # the data begin with a run of equal values: with a small everyn the lowest breakpoint is repeated (D45)
            x = [min(x)] * draw(st.integers(1, 3)) + sorted(x)
            kw['everyn'] = draw(st.sampled_from([1, 1, 2, kw['everyn']]))
            kw['everyn'] = min(kw['everyn'], max(1, len(x) // 2))
        if draw(st.integers(0, 3)) == 0:
            # the data end in a run of equal values (several measurements at the last abscissa)
            x = sorted(x) + [max(x)] * draw(st.integers(1, 3))
            kw['everyn'] = min(kw['everyn'], max(1, len(x) // 2))
        elif draw(st.integers(0, 3)) == 0:
            # a run of equal values just below the largest one (several measurements at the last abscissa but one): with a small everyn the
            # highest breakpoint taken from the data is repeated and lies below the data maximum
            xs_ = sorted(x)
            x = xs_[:-1] + [xs_[-2]] * draw(st.integers(2, 4)) + xs_[-1:]
            kw['everyn'] = draw(st.sampled_from([2, 2, 3, 1]))
            kw['everyn'] = min(kw['everyn'], max(1, len(x) // 2))
    order = draw(st.sampled_from(['sorted', 'shuffled']))
    x = sorted(x) if order == 'sorted' else list(draw(st.permutations(x)))
    kw['bkspread'] = draw(st.sampled_from([1.0, 1.0, 0.5, 2.0, 1.3]))
    ne = draw(st.integers(1, 60))
    ev = []
    for _ in range(ne):
        ev.append([draw(st.sampled_from(['in', 'in', 'in', 'knot', 'end', 'out'])), 0.5 * (1 + draw(uf)), draw(st.integers(0, 40))])
    if bk_int:
        x = [v + 0.37 if v == min(x) else (v - 0.29 if v == max(x) else v) for v in x] if span >= 10 else x
    return dict(x=x, nord=nord, opt=opt, kw=kw, bk_int=bk_int, dup_ends=dup_ends, ev=ev, coeff_seed=[draw(uf) for _ in range(8)], sort_eval=draw(st.sampled_from([False, False, True])),
                ev_dtype=draw(st.sampled_from(['f8', 'f8', 'f4', 'i8', 'u2', 'i4', 'u8'])), many=draw(st.integers(0, 400)) == 0)


def body(case):
    from pydl.pydlutils.bspline import bspline
    x = np.array(case['x'], dtype='f8')
    nord = case['nord']
    kw = dict(case['kw'])
    for k in ('bkpt', 'placed'):
        if k in kw:
            bdt = 'f8'
            if case.get('bk_int'):
                # whole-number breakpoints in a signed or (round 9, when none is negative) an unsigned integer array
                bdt = ('i8', 'u1', 'u2', 'i4', 'u8')[int(abs(case['coeff_seed'][0]) * 1000) % 5]
                if bdt[0] == 'u' and len(kw[k]) and (min(kw[k]) < 0 or max(kw[k]) > np.iinfo(bdt).max):
                    bdt = 'i8'
                note_label('breakpoint-dtype:' + bdt)
            kw[k] = np.array(kw[k], dtype=bdt)
    if case.get('bk_int'):
        note_label('integer-breakpoints')
    if case.get('dup_ends'):
        note_label('repeated-end-breakpoints-inside-the-data')
    b = call(bspline, x, nord=nord, **kw)
    with judge('knots'):
        t = np.asarray(b.breakpoints, dtype='f8')
        check(t.ndim == 1 and len(t) >= 2 * nord, 'knots:too-few', lambda: dict(n=len(t), nord=nord))
        check(bool(np.all(np.diff(t) >= 0)), 'knots:decreasing', lambda: dict(knots=t.tolist()))
        lo, hi = t[nord - 1], t[len(t) - nord]
        tol = 2.0 ** -22 * max(abs(x.min()), abs(x.max()), 1e-30)
        check(lo <= x.min() + tol and hi >= x.max() - tol, 'knots:data-range-not-covered',
              lambda: dict(inner=[float(lo), float(hi)], data=[float(x.min()), float(x.max())], opt=case['opt'], kw=case['kw']))
        check(lo < hi, 'knots:empty-range', lambda: dict(inner=[float(lo), float(hi)]))
        nb = len(t) - 2 * (nord - 1)
        check(nb >= 2, 'knots:padding-count', lambda: dict(n=len(t), nord=nord))
        if nord > 1:
            check(bool(np.all(t[:nord - 1] <= lo) and np.all(t[len(t) - nord + 1:] >= hi)), 'knots:padding-inside-range')
        check(np.asarray(b.mask).shape == t.shape and bool(np.all(b.mask)), 'knots:mask-not-all-true')
        if case['opt'] == 'placed' and not case.get('bk_int'):
            # "precalculated breakpoint positions": those inside the data range are the breakpoints; only the outermost two may have
            # been moved onto the data ends
            pin = np.sort(kw['placed'][(kw['placed'] >= x.min()) & (kw['placed'] <= x.max())])
            if len(pin) >= 3:
                inner_t = t[nord - 1:len(t) - nord + 1]
                check(all(bool(np.any(inner_t == p)) for p in pin[1:-1]), 'knots:placed-position-inside-the-data-range-dropped',
                      lambda: dict(placed=kw['placed'].tolist(), breakpoints=inner_t.tolist(), data=[float(x.min()), float(x.max())]))
                note_label('placed-kept')
        if case['opt'] == 'bkspace':
            # the documented meaning of the option: breakpoints `bkspace` apart.  When the spacing divides the data range exactly
            # (the quotient is a whole number in double precision) there are range/bkspace + 1 of them, exactly that far apart
            q = (x.max() - x.min()) / kw['bkspace']
            if q == int(q) and q >= 1:
                inner_t = t[nord - 1:len(t) - nord + 1]
                check(len(inner_t) == int(q) + 1, 'knots:bkspace-not-honoured', lambda: dict(bkspace=kw['bkspace'], range=float(x.max() - x.min()), breakpoints=len(inner_t), want=int(q) + 1))
                note_label('bkspace-divides-range')
        nc = len(t) - nord
        check(np.asarray(b.coeff).shape == (nc,), 'knots:coeff-shape', lambda: dict(got=np.asarray(b.coeff).shape, want=nc))
    for k in ('bkpt', 'placed'):
        if k in kw and kw[k].dtype.kind == 'f' and kw[k].size:
            # the caller goes on using its own array (here: refills it); the knots of the object are the object's
            kw[k][...] = kw[k] * 0.5 - 7.0
            with judge('aliasing'):
                check(bool(np.array_equal(np.asarray(b.breakpoints, dtype='f8'), t)), 'knots:change-when-the-caller-reuses-its-breakpoint-array', lambda: dict(nord=nord, option=k))
    # coefficients and evaluation points
    cs = case['coeff_seed']
    coeff = np.array([3.0 * cs[j % 8] * (1 + (j // 8)) + 0.25 * math.sin(1.7 * j) for j in range(nc)])
    b.coeff = coeff.copy()
    inner = t[nord - 1:len(t) - nord + 1]
    ev = []
    for kind, f, idx in case['ev']:
        if kind == 'in':
            ev.append(lo + f * (hi - lo))
        elif kind == 'knot':
            ev.append(float(inner[idx % len(inner)]))
        elif kind == 'end':
            ev.append(float(lo if idx % 2 else hi))
        else:
            ev.append(lo - 0.1 * (hi - lo) * f if idx % 2 else hi + 0.1 * (hi - lo) * f)
    ev = np.array(ev, dtype='f8')
    if case['sort_eval']:
        ev = np.sort(ev)
    f4 = case.get('ev_dtype', 'f8') == 'f4'
    if case.get('ev_dtype', 'f8')[0] in 'iu':
        # whole-number evaluation points held in an integer array (pixel indices: int64, int32, unsigned where none is negative)
        evi = np.round(ev).astype('i8')
        edt = case['ev_dtype']
        if edt[0] == 'u' and (evi.min() < 0 or evi.max() > np.iinfo(edt).max):
            edt = 'i8'
        evi = evi.astype(edt)
        note_label('eval-dtype:' + edt)
        if np.dtype(edt).itemsize <= 2:
            f4 = True          # 16-bit integers combine with the single-precision breakpoints in single precision: that accuracy is asked for
        ev = evi.astype('f8')
        y, m = call(b.value, evi.copy())
    elif f4:
        # evaluation points stored in single precision (the knots stay double): the reference is the spline at exactly those points
        ev32 = ev.astype('f4')
        ev = ev32.astype('f8')
        y, m = call(b.value, ev32.copy())
    else:
        y, m = call(b.value, ev.copy())
    with judge('value'):
        y = np.asarray(y, dtype='f8')
        m = np.asarray(m)
        check(y.shape == ev.shape and m.shape == ev.shape, 'value:shape', lambda: dict(y=y.shape, m=m.shape))
        inside = (ev >= lo) & (ev <= hi)
        check(bool(np.array_equal(m.astype(bool), inside)), 'mask-not-equal-to-range',
              lambda: dict(ev=ev.tolist(), mask=m.tolist(), range=[float(lo), float(hi)]))
        xi = ev[inside]
        if len(xi):
            r1 = bslib.spline_value(t, coeff, nord, xi, 'right')
            r2 = bslib.spline_value(t, coeff, nord, xi, 'left')
            g = y[inside]
            tolv = (2e-5 if f4 else 1e-9) * (1 + np.abs(coeff).max())       # float32 points give float32 basis values (eps 1.2e-7, times order and cancellation)
            ok = (np.abs(g - r1) <= tolv) | (np.abs(g - r2) <= tolv)
            check(bool(np.all(np.isfinite(g))), 'value:non-finite', lambda: dict(ev=xi.tolist(), got=g.tolist()))
            check(bool(ok.all()), 'value-differs-from-cox-de-boor',
                  lambda: dict(x=float(xi[~ok][0]), got=float(g[~ok][0]), want=float(r1[~ok][0]), nord=nord, knots=t.tolist(), n_eval=len(ev)))
    # the object keeps no state between evaluations: a second point set with the same length and the same extremes but a
    # different interior must give its own values
    if len(ev) >= 3:
        ev2 = np.sort(ev.copy())
        inner2 = lo + (hi - lo) * (0.5 + 0.5 * np.sin(np.arange(1, len(ev2) - 1) * 1.7 + cs[0]))
        ev2[1:-1] = np.sort(inner2)
        ev2[0], ev2[-1] = np.sort(ev)[0], np.sort(ev)[-1]
        y2, m2 = call(b.value, ev2.copy())
        with judge('second-evaluation'):
            y2 = np.asarray(y2, dtype='f8')
            in2 = (ev2 >= lo) & (ev2 <= hi)
            if in2.any():
                a1 = bslib.spline_value(t, coeff, nord, ev2[in2], 'right')
                a2 = bslib.spline_value(t, coeff, nord, ev2[in2], 'left')
                tolv = 1e-9 * (1 + np.abs(coeff).max())
                ok2 = (np.abs(y2[in2] - a1) <= tolv) | (np.abs(y2[in2] - a2) <= tolv)
                check(bool(ok2.all()), 'second-evaluation-on-same-object-wrong', lambda: dict(x=float(ev2[in2][~ok2][0]), got=float(y2[in2][~ok2][0]), want=float(a1[~ok2][0])))
            check(bool(np.array_equal(np.asarray(m2).astype(bool), in2)), 'second-evaluation-mask-wrong')
    if case.get('many'):
        # a whole image worth of evaluation points in one call (more than a 16-bit index can count), in no particular order
        kk = np.arange(40000, dtype='f8')
        big = lo + (hi - lo) * np.modf(kk * 0.6180339887498949 + cs[1] ** 2)[0]
        yb, mb = call(b.value, big.copy())
        parts = [np.asarray(call(b.value, big[i:i + 8000].copy())[0], dtype='f8') for i in range(0, 40000, 8000)]
        with judge('many-points'):
            yb = np.asarray(yb, dtype='f8')
            # the value at a point does not depend on how many other points are asked for in the same call; the 8000-point calls
            # are themselves spot-checked against the reference
            ref_parts = np.concatenate(parts)
            tolb = 1e-9 * (1 + np.abs(coeff).max())
            okb = np.abs(yb - ref_parts) <= tolb
            sub = slice(0, 40000, 97)
            rb1 = bslib.spline_value(t, coeff, nord, big[sub], 'right')
            rb2 = bslib.spline_value(t, coeff, nord, big[sub], 'left')
            oks = (np.abs(ref_parts[sub] - rb1) <= tolb) | (np.abs(ref_parts[sub] - rb2) <= tolb)
            check(bool(okb.all()) and bool(oks.all()) and bool(np.all(mb)), 'value-differs-from-cox-de-boor-for-40000-points',
                  lambda: dict(first_bad=int(np.nonzero(~okb)[0][0]) if (~okb).any() else None, nbad=int((~okb).sum()), spot_bad=int((~oks).sum())))
        note_label('40000-points')
    xs = np.sort(ev[(ev >= lo) & (ev <= hi)])
    if len(xs):
        idx = call(b.intrv, xs)
        bf = call(b.bsplvn, xs, idx)
        with judge('basis'):
            bf = np.asarray(bf, dtype='f8')
            check(bf.shape == (len(xs), nord), 'basis:shape')
            check(bool(np.all(bf >= -1e-14)), 'basis:negative', lambda: dict(min=float(bf.min())))
            check(bool(np.all(np.abs(bf.sum(1) - 1) <= 1e-12)), 'basis:does-not-sum-to-one', lambda: dict(sums=bf.sum(1).tolist()))
            # and they are the Cox-de Boor basis functions of the interval intrv() names
            for i, xv in enumerate(xs):
                ref = bslib.nonzero_basis(t, nord, xv, int(idx[i]))
                check(bool(np.all(np.abs(bf[i] - ref) <= 1e-12)), 'basis:not-cox-de-boor', lambda: dict(x=float(xv), got=bf[i].tolist(), want=ref.tolist()))
        nint = len(set(int(v) for v in idx))
        if nint >= 3:
            note_label('>=3-intervals')
        # round 9: the documented hand-over value(x, action=, lower=, upper=) for points in ascending order (the order in which
        # action() lays out its rows): the same values as value(x), also when the same matrix is handed over a second time,
        # and the caller's matrix is left alone
        act, alo, aup = call(b.action, xs.copy())
        act0 = np.array(act, copy=True)
        ya, ma = call(b.value, xs.copy(), action=act, lower=alo, upper=aup)
        yb, mb = call(b.value, xs.copy(), action=act, lower=alo, upper=aup)
        with judge('action-keyword'):
            ya, yb = np.asarray(ya, dtype='f8'), np.asarray(yb, dtype='f8')
            w1 = bslib.spline_value(t, coeff, nord, xs, 'right')
            w2 = bslib.spline_value(t, coeff, nord, xs, 'left')
            tola = 1e-9 * (1 + np.abs(coeff).max())
            oka = (np.abs(ya - w1) <= tola) | (np.abs(ya - w2) <= tola)
            check(bool(oka.all()), 'value-with-supplied-action-differs-from-cox-de-boor', lambda: dict(x=float(xs[~oka][0]), got=float(ya[~oka][0]), want=float(w1[~oka][0])))
            check(bool(np.array_equal(ya, yb)), 'second-evaluation-with-the-same-action-matrix-differs', lambda: dict(first=ya.tolist()[:6], second=yb.tolist()[:6]))
            check(bool(np.array_equal(np.asarray(act), act0)), 'value-modifies-the-supplied-action-matrix')
    if len(ev) > 1 and not bool(np.all(np.diff(ev) >= 0)):
        note_label('unsorted-eval')
    if len(set(ev.tolist()) & set(inner.tolist())):
        note_label('eval-on-knot')
    if (~((ev >= lo) & (ev <= hi))).any():
        note_label('eval-outside')


def classify(case):
    return ['opt:' + case['opt'], 'nord:%d' % case['nord'], 'bkspread:%g' % case['kw']['bkspread']]


def nontrivial(case, labels):
    return case['nord'] >= 2 and 'unsorted-eval' in labels and '>=3-intervals' in labels


SUBCHECKS = [
    SubCheck('construct_and_evaluate', body, strategy=case_strategy, classify=classify, nontrivial=nontrivial,
             quick=6000, thorough=300000, shards=(16, 16), doc='knot structure, value() vs Cox-de Boor, basis partition of unity, validity mask'),
]
