"""C14 -- IDL built-in replacements (smooth, median, uniq, rebin) follow IDL semantics."""
import itertools
import math

import numpy as np
from hypothesis import strategies as st

from vk import SubCheck, Violation, call, judge, check, note_label

PROPERTY = 'C14'
LEVEL = 'exploration'
RULE = ('four Hypothesis sub-checks.  smooth: float32/float64 arrays of length 1-60 (random, constant, repeated values), every width 1..N, '
        'edge_truncate both; oracle = mean over the odd-made window with indices clamped to the array (edge replication) where smoothing '
        'applies, input values on the w//2 edge points otherwise.  median: whole-array median (upper middle for even counts, mean of the '
        'middles with even=True) on 1-D/2-D arrays incl. ties; running median 1-D and 2-D (odd widths <= size) vs brute-force window '
        'medians with edges untouched.  uniq: sorted int/float arrays incl. constant ones, and arbitrary arrays + their argsort; oracle = '
        'last index of every run (Python loop).  rebin: 1-3-D shapes, every axis independently expand (x2,x3,x4) / keep / shrink (/2,/3,/4), float32, '
        'float64 and non-negative integer dtypes, sample both; oracle = axis-by-axis reference written from the IDL manual; illegal '
        'targets (non-integral factor, rank change) must raise ValueError.  Non-trivial: width >= 3 and N > width; even-length median; '
        'rebin with both an expanding and a shrinking axis.')
RULE += '  Also: strided / reversed views for smooth, runs of +-inf for uniq, expansion factors 5, 6, 7, 10, 49, 98 and big-endian floats for rebin.'
RULE += ' Round 11: uniq on distinct doubles 1 ulp / 2^-40 / 5e-11 relative apart and on denormals.'
RULE += ' Round 5: two rebin results alive at once; median inputs compared after the call, read-only inputs.'
ASSUMPTIONS = ['widths do not exceed the array length; running-median widths are odd',
               'integer arrays for rebin are signed and non-negative (unsigned input wraps around in the interpolation difference: rebin(uint8 [1,0], 4) gives [1,128,0,0]; noted in DESIGN.md, not asserted: IDL truncation and floor division coincide there; the docstring itself warns about integer compatibility)',
               'float comparison: 1e-12 relative (float64), 2e-6 relative (float32) to allow for a different summation order',
               'no NaN / inf in the data']

uf = st.floats(-1.0, 1.0, allow_nan=False)


def values(draw, n, kind):
    if kind == 'const':
        v = draw(st.sampled_from([0.0, 1.5, -2.0]))
        return [v] * n
    if kind == 'steps':
        return [float(draw(st.integers(-3, 3))) for _ in range(n)]
    return [100 * draw(uf) for _ in range(n)]


# ------------------------------------------------------------------ smooth
@st.composite
def smooth_case(draw):
    n = draw(st.integers(1, 60))
    x = values(draw, n, draw(st.sampled_from(['random', 'random', 'steps', 'const'])))
    if draw(st.integers(0, 5)) == 0:
        # a huge dynamic range (saturated pixel, cosmic ray): a window mean must depend on its own samples only
        x[draw(st.integers(0, n - 1))] = draw(st.sampled_from([1e16, -1e18, 1e12, 3e17]))
    return dict(x=x, width=draw(st.integers(1, n)), edge=draw(st.booleans()), posinf=draw(st.sampled_from([[], [], [], [0], [-1], [0, -1], [3], [-1, 5]])), dtype=draw(st.sampled_from(['f8', 'f4'])),
                view=draw(st.sampled_from(['contiguous', 'contiguous', 'every-other', 'column', 'reversed'])))


def smooth_body(case):
    from pydl import smooth
    x = np.array(case['x'], dtype=case['dtype'])
    n = len(x)
    view = case.get('view', 'contiguous')
    if view == 'every-other':          # the same values handed over as a strided view (every other sample of a longer array)
        buf = np.zeros(2 * n, dtype=x.dtype) + 7
        buf[::2] = x
        x = buf[::2]
    elif view == 'column':             # a column of a C-ordered image
        img = np.zeros((n, 3), dtype=x.dtype) - 3
        img[:, 1] = x
        x = img[:, 1]
    elif view == 'reversed':
        x = x[::-1].copy()[::-1]
    w = case['width'] + 1 if case['width'] % 2 == 0 else case['width']
    infpos = [q % n for q in case.get('posinf', [])]
    if infpos:
        # saturated samples (+infinity, one sign only so that no window holds inf - inf): a window that holds one averages to +infinity,
        # every other window is unaffected
        x = x.copy()
        x[infpos] = np.inf
        note_label('infinite-samples')
    keep = x.copy()
    got = call(smooth, x, case['width'], edge_truncate=case['edge'])
    h = w // 2
    xr = x.astype('f8')
    ref = xr.copy()
    wmax = np.abs(xr).copy()              # largest magnitude inside each point's window (tolerances are per window)
    if w >= 3:
        for i in range(n):
            interior = (i - h >= 0) and (i + h <= n - 1)
            if interior or case['edge']:
                win = [xr[min(max(j, 0), n - 1)] for j in range(i - h, i + h + 1)]
                ref[i] = math.fsum(win) / len(win)
                wmax[i] = np.abs(win).max()
    with judge('smooth'):
        got = np.asarray(got)
        check(got.shape == x.shape and got.dtype == x.dtype, 'smooth:shape-or-dtype', lambda: dict(shape=got.shape, dtype=str(got.dtype)))
        # relative to the largest magnitude in the window, plus the spacing of subnormal numbers of the array's type (results in the
        # subnormal range are rounded to that grid: 33.33 -> 33 units of 1.4e-45 was seen for float32)
        tol = (2e-6 if case['dtype'] == 'f4' else 1e-12) * np.maximum(1e-300, wmax) * w + w * float(np.finfo(case['dtype']).smallest_subnormal)
        isinf = np.isinf(ref)
        check(bool(np.array_equal(np.isposinf(got.astype('f8')), isinf)), 'smooth:infinite-sample-not-carried-through-its-windows-only',
              lambda: dict(got=got.astype('f8').tolist()[:12], want=ref.tolist()[:12], width=case['width'], edge=case['edge']))
        dev = np.where(isinf, 0.0, np.abs(np.where(isinf, 0.0, got.astype('f8')) - np.where(isinf, 0.0, ref)))
        tol = np.where(isinf, 1.0, np.where(np.isfinite(tol), tol, 1.0))
        check(bool(np.all(dev <= tol)), 'smooth:wrong-value', lambda: dict(index=int(dev.argmax()), got=float(got[dev.argmax()]), want=float(ref[dev.argmax()]),
                                                                          width=case['width'], edge=case['edge'], n=n))
        check(np.array_equal(x, keep), 'smooth:input-modified')


# ------------------------------------------------------------------ smooth on long arrays with wide windows
@st.composite
def smooth_long_case(draw):
    return dict(n=draw(st.sampled_from([40000, 20011, 65537, 32768])), width=draw(st.sampled_from([1501, 701, 3000, 999, 2047])), edge=draw(st.booleans()),
                dtype=draw(st.sampled_from(['f8', 'f8', 'f4'])), spikes=sorted(draw(st.lists(st.integers(0, 10 ** 6), min_size=1, max_size=2))), seed=draw(st.integers(0, 10 ** 6)))


def smooth_long_body(case):
    """spectra / time series of tens of thousands of samples smoothed over hundreds to thousands of them: whole-number samples 0..7 and one
    or two saturated ones (2^50; 2^21 in single precision), so that every window sum is exactly representable and the reference (integer
    cumulative sums) is exact - a window mean may depend on the samples inside the window only"""
    from pydl import smooth
    n, width = case['n'], case['width']
    vals = ((np.arange(n, dtype='i8') * 2654435761 + case['seed']) >> 7) % 8
    big = 2 ** 50 if case['dtype'] == 'f8' else 2 ** 21
    for sp_ in case['spikes']:
        vals[sp_ % n] = big
    x = vals.astype(case['dtype'])
    got = np.asarray(call(smooth, x, width, edge_truncate=case['edge']))
    w = width + 1 if width % 2 == 0 else width
    h = w // 2
    idx = np.clip(np.arange(-h, n + h), 0, n - 1)
    cs = np.concatenate([[0], np.cumsum(vals[idx])])
    sums = cs[w:] - cs[:-w]                      # window sums with clamped edges, exact
    ref = sums.astype('f8') / w
    interior = (np.arange(n) - h >= 0) & (np.arange(n) + h <= n - 1)
    if not case['edge']:
        ref = np.where(interior, ref, vals.astype('f8'))
    with judge('smooth-long'):
        check(got.shape == x.shape and got.dtype == x.dtype, 'smooth:shape-or-dtype', lambda: dict(shape=got.shape, dtype=str(got.dtype)))
        tol = (4 * np.finfo(case['dtype']).eps) * np.maximum(ref, 1.0)
        dev = np.abs(got.astype('f8') - ref)
        check(bool(np.all(dev <= tol)), 'smooth:long-array-wrong-value',
              lambda: dict(index=int(np.argmax(dev / tol)), got=float(got[np.argmax(dev / tol)]), want=float(ref[np.argmax(dev / tol)]), n=n, width=width, edge=case['edge'], n_wrong=int((dev > tol).sum())))
    note_label('n>=20000,width>=700')


# ------------------------------------------------------------------ median
@st.composite
def median_case(draw):
    mode = draw(st.sampled_from(['whole', 'whole2d', 'run1d', 'run2d']))
    kind = draw(st.sampled_from(['random', 'steps', 'steps']))
    if mode in ('whole', 'run1d'):
        n = draw(st.integers(1, 60))
        x = values(draw, n, kind)
        shape = [n]
    else:
        shape = [draw(st.integers(1, 12)), draw(st.integers(1, 12))]
        x = values(draw, shape[0] * shape[1], kind)
    width = None
    if mode == 'run1d':
        width = draw(st.sampled_from([w for w in range(1, shape[0] + 1, 2)]))
    if mode == 'run2d':
        width = draw(st.sampled_from([w for w in range(1, min(shape) + 1, 2)]))
    dtype = draw(st.sampled_from(['f8', 'f4', '>f8', '>f4', 'f8']))         # big-endian: what a FITS image delivers
    if mode in ('whole', 'whole2d') and dtype in ('f8', '>f8') and draw(st.integers(0, 5)) == 0:
        # finite values of any size: the median is one of them, or the mean of two of them
        x = [draw(st.sampled_from([1e308, -1e308, 0.0, 1.0, -1e308, 1e308])) for _ in x]
    return dict(mode=mode, shape=shape, x=x, width=width, even=draw(st.booleans()), dtype=dtype, readonly=draw(st.sampled_from([False, False, True])))


def median_body(case):
    from pydl import median
    a = np.array(case['x'], dtype=case['dtype']).reshape(case['shape'])
    keep = a.copy()
    if case.get('readonly'):
        a.setflags(write=False)        # data mapped read-only (np.frombuffer, a FITS memmap): the functions only have to read it
    mode = case['mode']
    if mode in ('whole', 'whole2d'):
        got = call(median, a, even=case['even'])
        check(np.array_equal(a, keep), 'median:input-modified', lambda: dict(before=keep.tolist(), after=a.tolist()))
        s = np.sort(a.ravel().astype('f8'))
        m = len(s)
        if m % 2 == 1:
            want = s[m // 2]
        elif case['even']:
            want = 0.5 * (s[m // 2 - 1] + s[m // 2])
        else:
            want = s[m // 2]
        with judge('median'):
            check(np.ndim(got) == 0, 'median:not-a-scalar')
            check(abs(float(got) - want) <= 1e-6 * max(1.0, abs(want)) if case['dtype'].endswith('f4') else float(got) == want, 'median:wrong-value',
                  lambda: dict(got=float(got), want=float(want), n=m, even=case['even']))
        return
    w = case['width']
    got = call(median, a, width=w)
    check(np.array_equal(a, keep), 'median:input-modified', lambda: dict(before=keep.tolist(), after=a.tolist()))
    h = (w - 1) // 2
    ref = a.astype('f8').copy()
    if mode == 'run1d':
        n = len(a)
        for i in range(n):
            if h <= i <= n - (w + 1) // 2:
                ref[i] = np.median(a[i - h:i + h + 1].astype('f8'))
    else:
        n0, n1 = a.shape
        for i in range(n0):
            for j in range(n1):
                if h <= i <= n0 - (w + 1) // 2 and h <= j <= n1 - (w + 1) // 2:
                    ref[i, j] = np.median(a[i - h:i + h + 1, j - h:j + h + 1].astype('f8'))
    with judge('running-median'):
        got = np.asarray(got)
        check(got.shape == a.shape, 'running-median:shape')
        check(bool(np.array_equal(got.astype('f8'), ref)), 'running-median:wrong-value',
              lambda: dict(where=np.argwhere(got.astype('f8') != ref)[0].tolist(), width=w, shape=case['shape']))


# ------------------------------------------------------------------ uniq
@st.composite
def uniq_case(draw):
    n = draw(st.integers(1, 60))
    dtype = draw(st.sampled_from(['i4', 'f8', 'i8']))
    vals = [draw(st.integers(-4, 4)) for _ in range(n)] if draw(st.integers(0, 4)) else [draw(st.integers(-4, 4))] * n
    inf = dtype == 'f8' and draw(st.integers(0, 3)) == 0        # runs of +-infinity at the ends of a sorted float array
    # round 11: distinct floating-point values that are very close (neighbouring doubles, 1e-12 and 5e-11 relative apart, denormals):
    # "equal values" means equal, every one of them ends its own run
    near = draw(st.sampled_from([None, None, 'ulp', 'rel40', 'big', 'denormal'])) if dtype == 'f8' and not inf else None
    return dict(x=vals, dtype=dtype, use_index=draw(st.booleans()), inf=inf, descending=draw(st.sampled_from([False, False, True])), near=near)


def uniq_body(case):
    from pydl import uniq
    x = np.array(case['x'], dtype=case['dtype'])
    if case.get('inf'):
        x = np.where(x <= -3, -np.inf, np.where(x >= 3, np.inf, x))
    if case.get('near'):
        step, base = dict(ulp=(2.0 ** -52, 1.5), rel40=(2.0 ** -40, 1.5), big=(0.5, 1e10), denormal=(5e-324, 0.0))[case['near']]
        x = base + x * step           # exact: the values stay distinct and in the same order
        note_label('near-ties:' + case['near'])
    if case['use_index']:
        idx = np.argsort(x, kind='stable')
        if case.get('descending') and len(set(x.tolist())) > 1:
            # sorted into descending order: monotonic all the same.  (Not for constant arrays: there IDL - and pydl - answer n-1
            # rather than index[n-1], which only coincide for the identity index; title of the property: "follow IDL semantics")
            idx = idx[::-1].copy()
        got = call(uniq, x, idx)
        q = x[idx]
    else:
        x = np.sort(x)
        if case.get('descending'):
            x = x[::-1].copy()
        idx = np.arange(len(x))
        got = call(uniq, x)
        q = x
    want = [int(idx[i]) for i in range(len(q)) if i == len(q) - 1 or q[i] != q[i + 1]]
    with judge('uniq'):
        check([int(v) for v in np.asarray(got)] == want, 'uniq:wrong-indices', lambda: dict(got=[int(v) for v in np.asarray(got)], want=want, x=case['x']))


# ------------------------------------------------------------------ rebin
@st.composite
def rebin_case(draw):
    ndim = draw(st.sampled_from([2, 1, 3]))
    shape, target, ops = [], [], []
    bigaxis = draw(st.integers(0, ndim - 1))
    for ax in range(ndim):
        op = draw(st.sampled_from(['expand', 'shrink', 'keep', 'expand']))
        f = draw(st.sampled_from([2, 3, 4] if ax != bigaxis else [2, 3, 4, 49, 5, 7, 10, 98, 6]))
        if op == 'shrink':
            m = draw(st.integers(1, 3))
            shape.append(m * f)
            target.append(m)
        elif op == 'expand':
            m = draw(st.integers(1, 4))
            shape.append(m)
            target.append(m * f)
        else:
            m = draw(st.integers(1, 5))
            shape.append(m)
            target.append(m)
        ops.append(op)
    dtype = draw(st.sampled_from(['f8', 'f4', 'i4', 'i2', '>f8', '>f4']))       # FITS images arrive big-endian
    n = int(np.prod(shape))
    if dtype[-2] in 'iu':
        top = draw(st.sampled_from([100, 32000 if dtype == 'i2' else 2000000000]))      # block sums must not wrap in the input dtype
        x = [draw(st.one_of(st.integers(0, top), st.sampled_from([top, top - 1, 0]))) for _ in range(n)]
    else:
        x = [100 * draw(uf) for _ in range(n)]
    sample = draw(st.booleans())
    if draw(st.integers(0, 11)) == 0:
        # every axis kept as it is (a copy), values of any finite size
        shape = [draw(st.integers(2, 6)) for _ in range(ndim)]
        target, ops, dtype, sample = list(shape), ['keep'] * ndim, 'f8', False
        n = int(np.prod(shape))
        x = [0.0] * n
    if dtype in ('f8', '>f8') and (sample or all(o == 'keep' for o in ops)) and (draw(st.integers(0, 3)) == 0 or all(o == 'keep' for o in ops)):
        # picks and unchanged axes only copy samples: finite values of any size, also next to each other with opposite signs
        x = [draw(st.sampled_from([1.7e308, -1.7e308, 1e308, -3e307, 0.0, 1.0])) for _ in range(n)]
    return dict(shape=shape, target=target, ops=ops, dtype=dtype, x=x, sample=sample)


def rebin_reference(a, target, sample):
    xx = a.copy()
    for k in range(a.ndim):
        d0, d = xx.shape[k], target[k]
        xx = np.moveaxis(xx, k, 0)
        new = np.zeros((d,) + xx.shape[1:], dtype=a.dtype)
        if d > d0:
            for i in range(d):
                p = (i * d0) / d            # output sample i sits at input position i*d0/d: whole part by integer arithmetic
                fp = (i * d0) // d
                if sample or p >= d0 - 1:
                    new[i] = xx[fp]
                else:
                    lo = xx[fp].astype('f8')
                    hi = xx[fp + 1].astype('f8')
                    new[i] = (lo + (p - fp) * (hi - lo)).astype(a.dtype)        # numpy truncates like IDL FIX()
        elif d == d0:
            new[...] = xx
        else:
            f = d0 // d
            for i in range(d):
                if sample:
                    new[i] = xx[f * i]
                else:
                    blk = xx[f * i:f * (i + 1)]
                    if a.dtype.kind in 'iu':
                        new[i] = (blk.astype('i8').sum(0) // f).astype(a.dtype)
                    else:
                        new[i] = (blk.astype('f8').sum(0) / f).astype(a.dtype)
        xx = np.moveaxis(new, 0, k)
    return xx


def rebin_body(case):
    from pydl import rebin
    a = np.array(case['x'], dtype=case['dtype']).reshape(case['shape'])
    keep = a.copy()
    got = call(rebin, a, tuple(case['target']), sample=case['sample'])
    want = rebin_reference(a, case['target'], case['sample'])
    with judge('rebin'):
        got = np.asarray(got)
        check(got.shape == tuple(case['target']), 'rebin:wrong-shape', lambda: dict(got=got.shape, want=case['target']))
        check(got.dtype == a.dtype, 'rebin:wrong-dtype', lambda: dict(got=str(got.dtype), want=case['dtype']))
        if a.dtype.kind in 'iu':
            ok = np.array_equal(got, want)
        else:
            tol = (2e-6 if case['dtype'].endswith('f4') else 1e-12) * max(1.0, np.abs(a).max())
            ok = bool(np.all(np.abs(got.astype('f8') - want.astype('f8')) <= tol))
        check(ok, 'rebin:wrong-values', lambda: dict(shape=case['shape'], target=case['target'], sample=case['sample'], dtype=case['dtype'],
                                                     got=got.tolist(), want=want.tolist()))
        check(np.array_equal(a, keep), 'rebin:input-modified')
    # two results alive at once (same target shape and dtype, different data): the first one must keep its values
    first = np.array(got, copy=True)
    b = (a[::-1].copy() if a.ndim == 1 else a[::-1, ...].copy())
    b = (b.astype('f8') * 0.5 + 1).astype(a.dtype)
    got2 = call(rebin, b, tuple(case['target']), sample=not case['sample'])
    with judge('rebin-two-results'):
        check(np.array_equal(np.asarray(got), first, equal_nan=True), 'rebin:earlier-result-changed-by-a-later-call', lambda: dict(shape=case['shape'], target=case['target']))
        check(not np.shares_memory(np.asarray(got), np.asarray(got2)), 'rebin:results-share-memory')


@st.composite
def rebin_bad_case(draw):
    if draw(st.integers(0, 40)) == 0:
        # spectrum- and image-sized axes: the factor is non-integral by one part in 1e5 or less
        big = draw(st.sampled_from([200001, 300007, 131073]))
        k = draw(st.sampled_from([k_ for k_ in (2, 3, 7, 11) if big % k_ != 0]))
        if draw(st.booleans()):
            return dict(shape=[big], target=[k], mode='nonintegral', sample=draw(st.booleans()))
        return dict(shape=[k * 1000], target=[big], mode='nonintegral', sample=draw(st.booleans()))
    ndim = draw(st.sampled_from([1, 2, 3]))
    shape = [draw(st.integers(2, 7)) for _ in range(ndim)]
    mode = draw(st.sampled_from(['nonintegral', 'nonintegral', 'rank']))
    target = list(shape)
    if mode == 'rank':
        target = target + [1] if draw(st.booleans()) or ndim == 1 else target[:-1]
    else:
        k = draw(st.integers(0, ndim - 1))
        cands = [t for t in range(1, 4 * shape[k]) if t % shape[k] != 0 and shape[k] % t != 0]
        target[k] = draw(st.sampled_from(cands)) if cands else shape[k] * 2 + 1
        if shape[k] % target[k] == 0 or target[k] % shape[k] == 0:
            mode = 'skip'
    return dict(shape=shape, target=target, mode=mode, sample=draw(st.booleans()))


def rebin_bad_body(case):
    from pydl import rebin
    if case['mode'] == 'skip':
        return
    a = np.arange(int(np.prod(case['shape'])), dtype='f8').reshape(case['shape'])
    try:
        r = call(rebin, a, tuple(case['target']), sample=case['sample'], allowed=(ValueError,))
    except ValueError:
        return
    raise Violation('rebin:illegal-target-accepted:' + case['mode'], dict(shape=case['shape'], target=case['target'], got_shape=np.shape(r)))


SUBCHECKS = [
    SubCheck('smooth', smooth_body, strategy=smooth_case, quick=3000, thorough=150000, shards=(2, 16),
             classify=lambda c: ['edge_truncate' if c['edge'] else 'edges-untouched', c['dtype'], 'even-width' if c['width'] % 2 == 0 else 'odd-width'],
             nontrivial=lambda c, l: c['width'] >= 2 and len(c['x']) > c['width'], doc='boxcar mean, edges, edge_truncate, even widths made odd'),
    SubCheck('smooth_long', smooth_long_body, strategy=smooth_long_case, quick=12, thorough=160, shards=(2, 16), floor=0.0,
             classify=lambda c: ['n:%d' % c['n'], 'width:%d' % c['width'], c['dtype']], nontrivial=lambda c, l: True,
             doc='20 000 - 65 537 samples, windows of 701 - 3001: exact whole-number data with saturated samples, exact reference'),
    SubCheck('median', median_body, strategy=median_case, quick=3000, thorough=150000, shards=(2, 16),
             classify=lambda c: ['mode:' + c['mode'], c['dtype'], 'even-count' if len(c['x']) % 2 == 0 else 'odd-count'],
             nontrivial=lambda c, l: (c['mode'].startswith('whole') and len(c['x']) % 2 == 0) or (c['width'] or 0) >= 3,
             doc='IDL median of the whole array and 1-D / 2-D running medians'),
    SubCheck('uniq', uniq_body, strategy=uniq_case, quick=3000, thorough=100000, shards=(4, 16),
             classify=lambda c: ['indexed' if c['use_index'] else 'sorted', c['dtype']], nontrivial=lambda c, l: len(set(c['x'])) < len(c['x']),
             doc='last index of every run, directly and through a sorting index'),
    SubCheck('rebin', rebin_body, strategy=rebin_case, quick=3000, thorough=150000, shards=(4, 16),
             classify=lambda c: ['ndim:%d' % len(c['shape']), 'dtype:' + c['dtype'], 'sample' if c['sample'] else 'interp'] + sorted(set(c['ops'])),
             nontrivial=lambda c, l: 'expand' in c['ops'] and 'shrink' in c['ops'], floor=0.01,
             doc='axis-by-axis expand / keep / shrink vs a reference written from the IDL manual'),
    SubCheck('rebin_rejects', rebin_bad_body, strategy=rebin_bad_case, quick=800, thorough=20000, shards=(1, 8),
             classify=lambda c: ['mode:' + c['mode']], nontrivial=lambda c, l: c['mode'] != 'skip', doc='non-integral factors and rank changes raise ValueError'),
]
