#!/bin/sh
# tools/confirm_seed.sh <PROPERTY> <SRC_DIR with patch.diff demo.py notes.md> <NAME>
# Confirms a seeded breaking change in a scratch worktree of /repo HEAD (outside /repo and /verif):
#   - patch applies, test suite still passes (133), demo fails with the patch and passes without it.
# On success copies it to seeded/<PROPERTY>_<NAME>/ with meta.json.
set -u
PID="$1"; SRC="$2"; NAME="$3"
HERE="$(cd "$(dirname "$0")/.." && pwd)"
WT="/tmp/confirm_${PID}_${NAME}_$$"
git -C /repo worktree add -q --detach "$WT" HEAD || exit 2
trap 'git -C /repo worktree remove --force "$WT" >/dev/null 2>&1' EXIT
cd "$WT"
run_demo() { PYTHONPATH="$WT" timeout 600 /venv/bin/python "$SRC/demo.py" >/dev/null 2>&1; echo $?; }
clean=$(run_demo)
git apply "$SRC/patch.diff" || { echo "$PID $NAME: patch does not apply"; exit 1; }
tests=$(PYTHONPATH="$WT" /venv/bin/python -m pytest -q -p no:cacheprovider 2>&1 | tail -1 | sed 's/\x1b\[[0-9;]*m//g')
broken=$(run_demo)
git checkout -q -- .
echo "$PID $NAME: demo clean=$clean patched=$broken tests: $tests"
case "$tests" in *"133 passed"*) ;; *) echo "  -> REJECTED (tests)"; exit 1;; esac
if [ "$clean" != "0" ] || [ "$broken" = "0" ]; then echo "  -> REJECTED (demo)"; exit 1; fi
DST="$HERE/seeded/${PID}_${NAME}"
mkdir -p "$DST"
cp "$SRC/patch.diff" "$SRC/demo.py" "$DST/"
[ -f "$SRC/notes.md" ] && cp "$SRC/notes.md" "$DST/"
/venv/bin/python - "$PID" "$NAME" "$DST" "$tests" "$clean" "$broken" <<'PY'
import json, sys, os
pid, name, dst, tests, clean, broken = sys.argv[1:]
notes = open(os.path.join(dst, 'notes.md')).read() if os.path.exists(os.path.join(dst, 'notes.md')) else ''
json.dump(dict(property=pid, name=name, breaks=pid, needs_to_manifest=notes.strip(),
               confirmed=dict(base='/repo HEAD (with fix: commits)', how='tools/confirm_seed.sh: scratch worktree under /tmp, git apply patch.diff, full pytest suite, demo.py with and without the patch',
                              test_suite=tests, demo_exit_clean=int(clean), demo_exit_patched=int(broken)),
               detected_by=None), open(os.path.join(dst, 'meta.json'), 'w'), indent=1)
PY
echo "  -> kept in seeded/${PID}_${NAME}"
