#!/bin/sh
# tools/reconfirm.sh <seeded/NAME>  -- after a patch was rebased on a repaired tree: scratch worktree of /repo HEAD, the suite must still
# pass with the patch (133) and the demo must fail with it and pass without it.  Prints one line; nothing is written.
SEED="$(cd "$1" && pwd)"; N=$(basename "$SEED")
WT="/tmp/reconf_${N}_$$"
git -C /repo worktree add -q --detach "$WT" HEAD || exit 2
trap 'git -C /repo worktree remove --force "$WT" >/dev/null 2>&1' EXIT
cd "$WT"
run_demo() { PYTHONPATH="$WT" timeout 600 /venv/bin/python "$SEED/demo.py" >/dev/null 2>&1; echo $?; }
clean=$(run_demo)
git apply "$SEED/patch.diff" || { echo "$N: patch does not apply"; exit 1; }
tests=$(PYTHONPATH="$WT" /venv/bin/python -m pytest -q -p no:cacheprovider 2>&1 | tail -1 | sed 's/\x1b\[[0-9;]*m//g' | cut -c1-40)
broken=$(run_demo)
ok=OK; case "$tests" in *"133 passed"*) ;; *) ok=BAD;; esac
[ "$clean" = "0" ] && [ "$broken" != "0" ] || ok=BAD
echo "$N: $ok demo clean=$clean patched=$broken tests: $tests"
