#!/bin/sh
# tools/run_seed.sh <seeded/NAME> [extra ./check args]   -- runs the quick check of the seed's property
# against a scratch worktree of /repo HEAD with the seed's patch applied (VERIF_REPO), then removes it.
set -u
HERE="$(cd "$(dirname "$0")/.." && pwd)"
SEED="$(cd "$1" && pwd)"; shift
PID=$(basename "$SEED" | cut -d_ -f1)
[ -n "${SEED_PROPERTY:-}" ] && PID="$SEED_PROPERTY"
WT="/tmp/runseed_$(basename "$SEED")_$$"
git -C /repo worktree add -q --detach "$WT" HEAD || exit 2
trap 'git -C /repo worktree remove --force "$WT" >/dev/null 2>&1' EXIT
git -C "$WT" apply "$SEED/patch.diff" || { echo "$(basename "$SEED"): patch does not apply"; exit 2; }
cd "$HERE"
t0=$(date +%s)
out=$(VERIF_REPO="$WT" ./check "$PID" --no-evidence "$@" 2>&1); rc=$?
t1=$(date +%s)
kinds=$(echo "$out" | grep '^violation:' | sed 's/violation: //' | tr '\n' ';' | cut -c1-300)
case $rc in
  1) echo "$(basename "$SEED") [$PID]: DETECTED in $((t1-t0))s  $kinds";;
  0) echo "$(basename "$SEED") [$PID]: MISSED ($((t1-t0))s)";;
  *) echo "$(basename "$SEED") [$PID]: HARNESS rc=$rc"; echo "$out" | tail -15;;
esac
exit 0
