#!/bin/sh
# tools/sensitivity.sh [seed-name-pattern]  -- runs the quick check of every seeded change's property against a scratch worktree
# with the change applied (16 at a time would oversubscribe: 3 at a time) and writes sensitivity.txt + meta.json detected_by.
HERE="$(cd "$(dirname "$0")/.." && pwd)"
cd "$HERE"
PAT="${1:-*}"
ls -d seeded/$PAT | xargs -P 3 -I{} tools/run_seed.sh {} > /tmp/sens_$$.txt 2>&1
sort /tmp/sens_$$.txt > sensitivity.txt
rm -f /tmp/sens_$$.txt
/venv/bin/python - <<'PY'
import json, re, os
for line in open('sensitivity.txt'):
    m = re.match(r'(\S+) \[(C\d+)\]: (DETECTED|MISSED|HARNESS)(.*)', line)
    if not m: continue
    name, pid, verdict, rest = m.groups()
    p = os.path.join('seeded', name, 'meta.json')
    if not os.path.exists(p): continue
    meta = json.load(open(p))
    kinds = sorted(set(re.findall(r'subcheck=(\S+) kind=([^;]+);', rest)))
    meta['detected_by'] = dict(check='./check %s --tier quick' % pid, verdict=verdict, subchecks=['%s:%s' % k for k in kinds][:6])
    json.dump(meta, open(p, 'w'), indent=1)
PY
grep -c DETECTED sensitivity.txt; grep -v DETECTED sensitivity.txt
