#!/bin/sh
# tools/silence.sh [seeds...]  -- every quick check must stay silent (exit 0, no VIOLATION) on the unchanged tree at several seeds
HERE="$(cd "$(dirname "$0")/.." && pwd)"; cd "$HERE"
SEEDS="${*:-1 2 3}"
bad=0
for s in $SEEDS; do
  for p in C01 C02 C03 C04 C05 C06 C07 C08 C09 C10 C11 C12 C13 C14 C15 C16 C17 C18 C19 C20; do
    out=$(VERIF_SEED=$s ./check $p --no-evidence 2>&1); rc=$?
    line=$(echo "$out" | grep "^$p tier")
    echo "seed=$s rc=$rc $line"
    if [ $rc -ne 0 ]; then bad=1; echo "$out" | grep -A3 "^violation\|HARNESS\|VACUOUS" | head -20; fi
  done
done
exit $bad
