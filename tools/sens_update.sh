#!/bin/sh
# tools/sens_update.sh <seed-dir>...  -- runs the quick check of the named seeds (3 at a time) against a scratch worktree with the change applied
# and merges the verdicts into sensitivity.txt (lines of other seeds are kept) and into the seeds' meta.json
HERE="$(cd "$(dirname "$0")/.." && pwd)"; cd "$HERE"
TMP=/tmp/sensupd_$$.txt
printf '%s\n' "$@" | xargs -P ${SENS_P:-3} -I{} tools/run_seed.sh {} > $TMP 2>&1
/venv/bin/python - "$TMP" <<'PY'
import json, re, os, sys
new = {}
for line in open(sys.argv[1]):
    m = re.match(r'(\S+) \[(C\d+)\]: (DETECTED|MISSED|HARNESS)(.*)', line)
    if m:
        new[m.group(1)] = line
old = {}
if os.path.exists('sensitivity.txt'):
    for line in open('sensitivity.txt'):
        m = re.match(r'(\S+) \[', line)
        if m:
            old[m.group(1)] = line
old.update(new)
open('sensitivity.txt', 'w').write(''.join(old[k] for k in sorted(old)))
for name, line in new.items():
    m = re.match(r'(\S+) \[(C\d+)\]: (DETECTED|MISSED|HARNESS)(.*)', line)
    name, pid, verdict, rest = m.groups()
    p = os.path.join('seeded', name, 'meta.json')
    if not os.path.exists(p):
        continue
    meta = json.load(open(p))
    kinds = sorted(set(re.findall(r'subcheck=(\S+) kind=([^;]+);', rest)))
    meta['detected_by'] = dict(check='./check %s --tier quick' % pid, verdict=verdict, subchecks=['%s:%s' % k for k in kinds][:6])
    json.dump(meta, open(p, 'w'), indent=1)
print(len(new), 'seeds run;', sum('DETECTED' in v for v in new.values()), 'detected')
for v in new.values():
    if 'DETECTED' not in v:
        print(v.strip()[:200])
PY
rm -f $TMP
