#!/bin/sh
# tools/intake.sh <ROUND> <PROPERTY> [worktree-root]  -- confirm both seeds an agent left in <root>/<PROPERTY>/_seed/{A,B},
# keep them as seeded/<PROPERTY>_<ROUND>{A,B} and run the property's quick check against each.
R="$1"; PID="$2"; ROOT="${3:-/tmp/wt$R}"
HERE="$(cd "$(dirname "$0")/.." && pwd)"; cd "$HERE"
for X in A B; do
  SRC="$ROOT/$PID/_seed/$X"
  [ -f "$SRC/patch.diff" ] || { echo "$PID $X: no patch"; continue; }
  tools/confirm_seed.sh "$PID" "$SRC" "$R$X" && tools/run_seed.sh "seeded/${PID}_$R$X"
done
