#!/usr/bin/env python3
"""Regenerate MANIFEST.json from the property modules that exist under props/."""
import glob, json, os, re, sys
HERE = os.path.dirname(os.path.dirname(os.path.abspath(__file__)))
props = [json.loads(l) for l in open(os.path.join(HERE, 'properties.jsonl'))]
INFO = json.load(open(os.path.join(HERE, 'tools', 'manifest_info.json')))
hooks_commits = INFO.get('hook_commits', [])
checks, na = [], []
for p in props:
    pid = p['id']
    have = glob.glob(os.path.join(HERE, 'props', pid.lower() + '_*.py'))
    info = INFO['checks'].get(pid)
    if not have or not info:
        na.append(dict(property_id=pid, reason=INFO.get('not_applicable', {}).get(
            pid, 'check not built yet (planned in DESIGN.md section 3); nothing is claimed for it')))
        continue
    checks.append(dict(
        property_id=pid,
        quick_cmd='./check %s --tier quick' % pid,
        thorough_cmd='./check %s --tier thorough' % pid,
        evidence_file='evidence/%s.json' % pid,
        replay_cmd_template='./check %s --replay {path}' % pid,
        engine='vk',
        level_claimed=dict(category=info.get('level', 'exploration'), text=info['text'],
                           design_ref='DESIGN.md section 3, ' + pid),
        level_note=info['note'],
        technique=info['technique']))
man = dict(
    version=1,
    setup_cmd=INFO['setup_cmd'],
    hooks=dict(guard='PYDL_VERIF', enable='no hooks: every property is observable through public return values, files and os.environ; checks import /repo as it is',
               baseline_off_cmd='cd /repo && /venv/bin/python -m pytest -ra -q -p no:cacheprovider --timeout=900 --continue-on-collection-errors',
               source_commits=hooks_commits, add_only=True),
    engines=[dict(name='vk', path='vk/runner.py', serves_properties=[c['property_id'] for c in checks],
                  kind_free_text='Hypothesis-driven generated-input search (composite strategies, rule-based state machines, exhaustive sweeps, fault enumeration) with independent oracles; sharded over 16 processes; shrunk failures become replay files')],
    checks=checks,
    not_applicable=na,
    notes=INFO.get('notes', ''))
json.dump(man, open(os.path.join(HERE, 'MANIFEST.json'), 'w'), indent=1)
print('claimed:', [c['property_id'] for c in checks]); print('not claimed:', [n['property_id'] for n in na])
