#!/bin/sh
# tools/thorough_all.sh [ids...] -- thorough tier of every property, one after the other (evidence not rewritten)
HERE="$(cd "$(dirname "$0")/.." && pwd)"; cd "$HERE"
IDS="${*:-C01 C02 C03 C04 C05 C06 C07 C08 C09 C10 C11 C12 C13 C14 C15 C16 C17 C18 C19 C20}"
for p in $IDS; do
  out=$(./check $p --tier thorough --no-evidence 2>&1); rc=$?
  echo "rc=$rc $(echo "$out" | grep "^$p tier")"
  [ $rc -ne 0 ] && echo "$out" | grep -A3 "^violation\|HARNESS\|VACUOUS" | cut -c1-1500 | head -40
done
